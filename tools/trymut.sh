#!/bin/bash
# usage: trymut.sh <patch.diff> <prop-id>...   (runs checks against a scratch copy of /repo + patch)
set -u
P=$1; shift
D=$(mktemp -d /tmp/trymut.XXXX)
rsync -a --exclude .git --exclude res /repo/ $D/repo/
python3 /verif/contracts/gen.py $D/repo
(cd $D/repo && patch -s -p1 < $P) || { echo "PATCH FAILED"; rm -rf $D; exit 3; }
for id in "$@"; do
  GOVC_OUT=$D/out GOVC_REPO=$D/repo ${GOVC_BIN:-/verif/bin/govc} check $id ${TIER:+--tier $TIER} 2>&1 | grep -E "VIOLATION|KNOWN|govc:" | cut -c1-250
  echo "exit=${PIPESTATUS[0]}"
done
rm -rf $D
