#!/bin/bash
# runs every claimed check against /repo (quick tier by default) and reports status
cd /verif
for id in $(python3 -c "import json;print(' '.join(c['property_id'] for c in json.load(open('MANIFEST.json'))['checks']))"); do
  /usr/bin/time -f "%es" bin/govc check $id ${TIER:+--tier $TIER} 2>&1 | grep -E "VIOLATION|govc: |tool error|s$" | cut -c1-160 | tr '\n' ' '; echo
done
