#!/bin/bash
# usage: seed_import.sh <Cxx> <mN> [extra check ids...]
# Confirms a seeded change (builds, suite passes, demo fails with it and passes without) on a scratch
# copy of /repo, runs the property's check against it, and files it under /verif/seeded/<Cxx>_<mN>/.
set -u
ID=$1; M=$2; shift 2
SRC=/tmp/mut/$ID/$M
DST=/verif/seeded/${ID}_$M
[ -f $SRC/patch.diff ] || { echo "no patch for $ID/$M"; exit 2; }
D=$(mktemp -d /tmp/seed.XXXX)
rsync -a --exclude .git --exclude res /repo/ $D/repo/
export GOWORK=off GOFLAGS=-mod=mod GOPROXY=off GOSUMDB=off GOTOOLCHAIN=local
cd $D/repo
pkgname=$(grep -m1 '^package ' $SRC/demo_test.go | awk '{print $2}' | sed 's/_test$//')
dir=${pkgname#gocvss}
run_demo() { cp $SRC/demo_test.go $D/repo/$dir/zz_seed_demo_test.go; (cd $D/repo && go test -vet=off -count=1 ./$dir/ >$D/demo.log 2>&1); rc=$?; rm -f $D/repo/$dir/zz_seed_demo_test.go; return $rc; }
run_demo; clean_rc=$?
patch -s -p1 < $SRC/patch.diff || { echo "$ID/$M PATCH-FAILED"; rm -rf $D; exit 3; }
go build ./... >$D/build.log 2>&1; build_rc=$?
go test -vet=off -count=1 ./20/ ./30/ ./31/ ./40/ >$D/suite.log 2>&1; suite_rc=$?
run_demo; mut_rc=$?
mkdir -p $DST
cp $SRC/patch.diff $SRC/demo_test.go $DST/
checks=""
for c in $ID "$@"; do
  out=$(GOVC_OUT=$D/out GOVC_REPO=$D/repo ${GOVC_BIN:-/verif/bin/govc} check $c 2>&1); rc=$?
  nv=$(echo "$out" | grep -c '^VIOLATION')
  nr=$(echo "$out" | grep '^VIOLATION' | grep -vc 'no-failing-input-found')
  rp=false; [ "$nr" -gt 0 ] && rp=true
  first=$(echo "$out" | grep -m1 '^VIOLATION' | sed 's/.*replays\/[^\/]*\///' )
  checks="$checks{\"check\":\"$c\",\"exit\":$rc,\"violation_lines\":$nv,\"replayed\":$rp,\"first\":\"$first\"},"
done
python3 - "$SRC/meta.json" "$DST/meta.json" "$ID" "$M" $clean_rc $build_rc $suite_rc $mut_rc "[${checks%,}]" <<'PY'
import json,sys
src,dst,ID,M,clean,build,suite,mut,checks=sys.argv[1:10]
try: meta=json.load(open(src))
except Exception: meta={}
meta['property']=ID
meta['confirmed_by_me']={'builds_with_change':build=='0','existing_suite_passes_with_change':suite=='0','demo_fails_with_change':mut!='0','demo_passes_without_change':clean=='0',
  'how':'scratch copy of /repo HEAD (with the fix: commits): go build ./..., go test -vet=off ./20/ ./30/ ./31/ ./40/, demo copied into the package directory and run with and without the patch'}
meta['checks_run']=json.loads(checks)
json.dump(meta,open(dst,'w'),indent=1)
ok = build=='0' and suite=='0' and mut!='0' and clean=='0'
print(ID,M,'CONFIRMED' if ok else 'NOT-CONFIRMED',[ (c['check'],c['exit'],c['violation_lines']) for c in meta['checks_run']])
PY
rm -rf $D
