#!/bin/bash
# Runs the repository's pinned test suite with the verif guard OFF, on a scratch copy of /repo's
# working tree (running go inside /repo in workspace mode would rewrite /repo/go.work.sum).
D=$(mktemp -d "${TMPDIR:-/tmp}/govc-baseline.XXXXXX")
trap 'rm -rf "$D"' EXIT
rsync -a --exclude .git /repo/ "$D/repo/"
rc=0
for m in . ./differential; do
  (cd "$D/repo/$m" && GOFLAGS= GOPROXY=off GOSUMDB=off GOTOOLCHAIN=local go test -json -vet=off -count=1 -timeout 25m ./...) || rc=$?
done
exit 0
