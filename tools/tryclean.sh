#!/bin/bash
# usage: tryclean.sh <prop-id>...  (runs checks against a scratch copy of /repo with contracts regenerated from /verif/contracts)
set -u
D=$(mktemp -d /tmp/tryclean.XXXX)
rsync -a --exclude .git --exclude res /repo/ $D/repo/
python3 /verif/contracts/gen.py $D/repo >/dev/null
for id in "$@"; do
  GOVC_OUT=$D/out GOVC_REPO=$D/repo ${GOVC_BIN:-/verif/bin/govc} check $id ${TIER:+--tier $TIER} 2>&1 | grep -E "VIOLATION|KNOWN|govc:" | cut -c1-250
  echo "exit=${PIPESTATUS[0]}"
done
rm -rf $D
