#!/usr/bin/env python3
"""Writes /verif/seeded/MATRIX.md from the meta.json files of the seeded changes."""
import json, glob, os

# what each change that was first missed made me strengthen (the change is reported since then)
NOTES = {
 'C04_m1': 'first missed: v4 cut obligations were classified as float goals and never discharged',
 'C04_m2': 'first missed: same hole as C04_m1',
 'C12_m1': 'first reported by the thorough tier only; quick now runs the inner stage on the classes with CR=IR=AR',
 'C12_m2': 'first missed in quick (distances all 0); quick now covers the corners of every distance box, with a concrete replayed pair',
 'C17_m2': 'first missed: pool put-back on every return path was not an obligation',
 'C01_m3': 'first ended as a tool error (stale proof hint); stale hints are now dropped and the obligations attempted without them',
 'C09_m4': 'first missed by C09: scoring-function safety obligations were left to C04/C11; C09 now discharges them',
 'C11_m3': 'first missed: stages fixed non-enumerated bits at 0; instances now leave them open',
 'C11_m4': 'C11 assumes wf; reported through Set wf_preserved, which C11 now discharges itself',
 'C11_m5': 'first missed in quick: the inner environmental stage was thorough-only; quick now runs a stated subset',
 'C13_m3': 'first missed by C14: package state handed to sync/atomic is now a frame obligation',
 'C14_m4': 'first missed: a second Put of the pool item was not an obligation',
 'C14_m6': 'first missed by C14: range over a map (nondeterministic order) is now a frame obligation',
 'C18_m3': 'first missed by C18: callee clauses assumed at call sites are now discharged in every check that uses them',
 'C18_m4': 'first missed by C18: same (splitCouple contract)',
 'C03_m7': 'first missed by the quick subset of the inner stage; C03 now runs the whole inner stage in both tiers',
 'C11_m8': 'first missed: C11 now discharges the contract of Rating itself',
 'C14_m7': 'first missed: append into a package-level backing array is now a write in the frame analysis',
 'C14_m8': 'first missed: every function calling Pool.Get is now run with arbitrary pool contents',
 'C03_m2': 'lifting through the relational obligations, which C03 now discharges itself',
}

rows = []
for d in sorted(glob.glob('/verif/seeded/*/')):
    mp = os.path.join(d, 'meta.json')
    if not os.path.exists(mp):
        continue
    m = json.load(open(mp))
    name = os.path.basename(d.rstrip('/'))
    conf = m.get('confirmed_by_me', {})
    ok = all(conf.get(k) for k in ('builds_with_change', 'existing_suite_passes_with_change', 'demo_fails_with_change', 'demo_passes_without_change'))
    det = []
    for c in m.get('checks_run', []):
        tag = c['check'] + (':VIOLATION' if c['exit'] == 1 and c['violation_lines'] > 0 else ':quiet' if c['exit'] == 0 else ':exit%d' % c['exit'])
        if c.get('replayed'):
            tag += '(replayed input)'
        det.append(tag)
    what = (m.get('what_it_breaks') or '').replace('\n', ' ').replace('|', '/')
    if len(what) > 230:
        what = what[:227] + '...'
    rows.append((name, ', '.join(m.get('files_changed', [])), what, 'yes' if ok else 'NO', ' '.join(det), NOTES.get(name, m.get('detection_note', ''))))

with open('/verif/seeded/MATRIX.md', 'w') as f:
    f.write('# Seeded changes and which checks report them\n\n')
    f.write('Every change compiles, passes the pinned test suite, and breaks the property named by its directory\n'
            '(`<property>_<mutant>`); `confirmed` = I re-checked build / suite / demo-fails / demo-passes-on-pristine on a scratch copy.\n'
            'm1, m2: first round of sub-agents; m3, m4 and m5, m6: second and third rounds; m7, m8: a fourth round on eight properties (each told what the earlier rounds had produced and asked for a different kind of change).\n'
            '`Cxx:VIOLATION` = the quick check of Cxx exits 1 with a VIOLATION line on the changed tree; `quiet` = exits 0.\n\n')
    f.write('| change | files | what it breaks | confirmed | checks run (quick tier) | note |\n|---|---|---|---|---|---|\n')
    for r in rows:
        f.write('| ' + ' | '.join(r) + ' |\n')
    n = len(rows)
    detected = sum(1 for r in rows if ':VIOLATION' in r[4])
    f.write('\n%d changes, %d reported by at least one of the checks run.\n' % (n, detected))
print(len(rows), 'rows')
