#!/usr/bin/env python3
"""Writes /verif/seeded/MATRIX.md from the meta.json files of the seeded changes."""
import json, glob, os

rows = []
for d in sorted(glob.glob('/verif/seeded/*/')):
    mp = os.path.join(d, 'meta.json')
    if not os.path.exists(mp):
        continue
    m = json.load(open(mp))
    name = os.path.basename(d.rstrip('/'))
    conf = m.get('confirmed_by_me', {})
    ok = all(conf.get(k) for k in ('builds_with_change', 'existing_suite_passes_with_change', 'demo_fails_with_change', 'demo_passes_without_change'))
    det = []
    for c in m.get('checks_run', []):
        tag = c['check'] + (':VIOLATION' if c['exit'] == 1 and c['violation_lines'] > 0 else ':quiet' if c['exit'] == 0 else ':exit%d' % c['exit'])
        if c.get('replayed'):
            tag += '(replayed input)'
        det.append(tag)
    what = (m.get('what_it_breaks') or '').replace('\n', ' ').replace('|', '/')
    if len(what) > 230:
        what = what[:227] + '...'
    rows.append((name, ', '.join(m.get('files_changed', [])), what, 'yes' if ok else 'NO', ' '.join(det), m.get('detection_note', '')))

with open('/verif/seeded/MATRIX.md', 'w') as f:
    f.write('# Seeded changes and which checks report them\n\n')
    f.write('Every change compiles, passes the pinned test suite, and breaks the property named by its directory\n'
            '(`<property>_<mutant>`); `confirmed` = I re-checked build / suite / demo-fails / demo-passes-on-pristine on a scratch copy.\n'
            'm1, m2: first round of sub-agents; m3, m4: second round (asked for a different kind of change).\n'
            '`Cxx:VIOLATION` = the quick check of Cxx exits 1 with a VIOLATION line on the changed tree; `quiet` = exits 0.\n\n')
    f.write('| change | files | what it breaks | confirmed | checks run (quick tier) | note |\n|---|---|---|---|---|---|\n')
    for r in rows:
        f.write('| ' + ' | '.join(r) + ' |\n')
    n = len(rows)
    detected = sum(1 for r in rows if ':VIOLATION' in r[4])
    f.write('\n%d changes, %d reported by at least one of the checks run.\n' % (n, detected))
print(len(rows), 'rows')
