package main

import (
	"fmt"
	"os"
)

func main() {
	if len(os.Args) < 2 {
		fmt.Fprintln(os.Stderr, "usage: govc check <id> [--tier quick|thorough] | func <pkg> <key> | replay <path>")
		os.Exit(2)
	}
	switch os.Args[1] {
	case "func":
		os.Exit(cmdFunc(os.Args[2:]))
	case "replay":
		os.Exit(cmdReplay(os.Args[2]))
	case "check":
		id := os.Args[2]
		tier := os.Getenv("VERIF_TIER")
		for i, a := range os.Args {
			if a == "--tier" && i+1 < len(os.Args) {
				tier = os.Args[i+1]
			}
		}
		if tier != "thorough" {
			tier = "quick"
		}
		var seed int64
		fmt.Sscan(os.Getenv("VERIF_SEED"), &seed)
		os.Exit(runCheck(id, tier, seed))
	default:
		fmt.Fprintln(os.Stderr, "unknown command")
		os.Exit(2)
	}
}

func cmdFunc(args []string) int {
	w, err := LoadWorld()
	defer w.Close()
	if err != nil {
		fmt.Fprintln(os.Stderr, "load:", err)
		return 2
	}
	opts := RunOpts{TrackAllocs: os.Getenv("GOVC_ALLOCS") != "", AppendMustFit: os.Getenv("GOVC_ALLOCS") != ""}
	if opts.TrackAllocs {
		opts.AllocFilter = w.allocFilterFor(args[0], nil)
	}
	fr := w.RunFunc(args[0], args[1], opts)
	if fr.Err != "" {
		fmt.Println("ERROR:", fr.Err)
		return 2
	}
	res := Discharge(fr, 60, nil)
	bad := 0
	for _, r := range res {
		fmt.Printf("%-12s %-10s %6.2fs %s\n", r.Status, r.Solver, r.Seconds, r.Name)
		if r.Status != "proved" {
			bad++
			if os.Getenv("GOVC_VERBOSE") != "" {
				fmt.Println(truncate(r.Output+r.Model, 1500))
			}
		}
	}
	fmt.Printf("%d obligations, %d not proved; inlined=%v modular=%v extern=%v\n", len(res), bad, keys(fr.VC.Inlined), keys(fr.VC.Modular), keys(fr.VC.Extern))
	if bad > 0 {
		return 1
	}
	return 0
}

func keys(m map[string]bool) []string {
	var r []string
	for k := range m {
		r = append(r, k)
	}
	return r
}
