package main

// Relational (2-safety) obligations by self-composition: the function is executed twice on two
// symbolic receivers related by a spec-level equivalence, and the results must be equal.  Floating
// point operations are left uninterpreted (equal arguments give equal results by congruence), so the
// obligation is decided symbolically for all pairs of objects.

import (
	"encoding/json"
	"fmt"
	"go/types"
	"regexp"
	"path/filepath"
	"strings"
	"time"
)

type relSpec struct {
	Pkg      string
	Func     string
	Relation string // spec predicate over (a, b)
	Name     string
}

func (cc *CheckCtx) runRel(rs relSpec) {
	key := rs.Pkg + "." + rs.Func
	cc.Funcs[key] = true
	opts := RunOpts{NoSafety: true, InlineAll: true, SkipPost: true}
	fr1 := cc.W.RunFunc(rs.Pkg, rs.Func, opts)
	opts.Suffix = "_b"
	opts.FreshBase = 100000
	fr2 := cc.W.RunFunc(rs.Pkg, rs.Func, opts)
	if fr1.Err != "" || fr2.Err != "" {
		cc.ToolErr = append(cc.ToolErr, key+": "+fr1.Err+fr2.Err)
		return
	}
	for k := range fr1.VC.Inlined {
		cc.Inlined[k] = true
	}
	r1, ok1 := fr1.RetVals[0].(*Term)
	r2, ok2 := fr2.RetVals[0].(*Term)
	if !ok1 || !ok2 {
		cc.ToolErr = append(cc.ToolErr, key+": relational check needs scalar results")
		return
	}
	recv := func(fr *FuncRun) *Term {
		v := fr.Params[fr.Ex.fn.Params[0].Name()]
		if p, ok := v.(*PtrV); ok {
			v = fr.Entry.mem[p.A]
		}
		return structTerm(v.(*StructV))
	}
	a, b := recv(fr1), recv(fr2)
	V := rs.Pkg
	assumes := []*Term{App("wf"+V, SBool, a), App("wf"+V, SBool, b), App(rs.Relation, SBool, a, b)}
	// The two result terms have the same shape (same code executed twice).  Walk them in lockstep:
	// floating-point operations are matched structurally; every maximal subterm without a
	// floating-point operation (bit-vector tests, weight tables with literal leaves) must be equal.
	termMu.Lock()
	var atoms []*Term
	okShape := lockstep(Ite(fr1.RetPC, r1, FPLit(0)), Ite(fr2.RetPC, r2, FPLit(0)), &atoms, map[[2]*Term]bool{})
	goal := And(atoms...)
	if !okShape {
		termMu.Unlock()
		cc.ToolErr = append(cc.ToolErr, key+": the two executions produced differently shaped terms")
		return
	}
	script := ScriptFor(fr1.Prelude, assumes, goal, false)
	termMu.Unlock()
	cc.Extra["relational_atoms/"+key] = len(atoms)
	var sb strings.Builder
	sb.WriteString(script)
	to := 60
	if cc.Tier == "thorough" {
		to = 300
	}
	t0 := time.Now()
	name := fmt.Sprintf("gocvss%s.%s/rel/%s", rs.Pkg, rs.Func, rs.Name)
	sr := Solve(sb.String(), filepath.Join(smtOutDir, "rel"), slug(name), to, nil)
	r := ObResult{Name: name, Kind: "relational", Func: rs.Func, Pkg: rs.Pkg, Solver: sr.Solver, Seconds: time.Since(t0).Seconds(), File: filepath.Join(smtOutDir, "rel", slug(name)+".smt2")}
	switch sr.Status {
	case "unsat":
		r.Status = "proved"
	case "sat":
		r.Status = "refuted"
		r.Model = sr.Output
		cc.replayRel(fr1, fr2, sr.Output, &r)
	default:
		r.Status = "undischarged"
		r.Output = sr.Output
	}
	cc.Results = append(cc.Results, r)
}

var modelBVRe = regexp.MustCompile(`\(define-fun ([^\s()]+) \(\) \(_ BitVec 8\)\s+(#x[0-9a-fA-F]{2}|#b[01]{8})\)`)

// replayRel runs the real function on the two objects of a counterexample pair and compares.
func (cc *CheckCtx) replayRel(fr1, fr2 *FuncRun, model string, r *ObResult) {
	defer func() {
		if rec := recover(); rec != nil {
			r.Replay = &ReplayInfo{Note: fmt.Sprintf("replay not possible: %v", rec)}
		}
	}()
	vals := map[string]string{}
	for _, m := range modelBVRe.FindAllStringSubmatch(model, -1) {
		vals[m[1]] = m[2]
	}
	info := &ReplayInfo{Inputs: map[string]interface{}{}}
	r.Replay = info
	var observed []map[string]interface{}
	for i, fr := range []*FuncRun{fr1, fr2} {
		fn := fr.Ex.fn
		p := fn.Params[0]
		v := fr.Params[p.Name()]
		if pv, ok := v.(*PtrV); ok {
			v = fr.Entry.mem[pv.A]
		}
		sv := v.(*StructV)
		cv := map[string]string{}
		for k, f := range sv.Fields {
			sym := f.(*Term)
			x, ok := vals[sym.Name]
			if !ok {
				x = "#x00"
			}
			cv[p.Name()+"."+sv.T.Field(k).Name()] = x
		}
		t := p.Type()
		if pt, ok := t.Underlying().(*types.Pointer); ok {
			t = pt.Elem()
		}
		c, ok := concretize(cv, p.Name(), t, fn.Pkg.Pkg.Name())
		if !ok {
			info.Note = "cannot build the objects of the counterexample pair"
			return
		}
		sub := &ReplayInfo{Inputs: map[string]interface{}{}}
		cc.replayWith(fr, map[string]*concreteIn{p.Name(): c}, sub)
		info.Inputs[fmt.Sprintf("object%d", i+1)] = c.shown
		if i == 0 {
			info.TestSource = sub.TestSource
		}
		observed = append(observed, sub.Observed)
	}
	info.Observed = map[string]interface{}{"object1": observed[0], "object2": observed[1]}
	a, _ := json.Marshal(observed[0]["r0"])
	b, _ := json.Marshal(observed[1]["r0"])
	if observed[0] != nil && observed[1] != nil && string(a) != string(b) {
		info.Confirmed = true
		info.Note = "the real code returns different results for two objects that the specification treats alike"
		info.FailedClauses = []string{r.Name}
	} else {
		info.Note = "the two objects of the solver's pair give equal results on the real code (floating point is uninterpreted in this obligation, so the pair may be spurious)"
	}
}

func hasFPOp(t *Term, memo map[*Term]bool) bool {
	if v, ok := memo[t]; ok {
		return v
	}
	r := isFPOp(t) || t.Op == "fp.to_real" || strings.HasPrefix(t.Op, "fp.")
	if !r {
		for _, a := range t.Args {
			if hasFPOp(a, memo) {
				r = true
				break
			}
		}
	}
	memo[t] = r
	return r
}

var fpOpMemo = map[*Term]bool{}

// lockstep collects the equalities between corresponding FP-operation-free subterms of two equally
// shaped terms; it returns false when the shapes differ.
func lockstep(x, y *Term, out *[]*Term, seen map[[2]*Term]bool) bool {
	if x == y {
		return true
	}
	k := [2]*Term{x, y}
	if seen[k] {
		return true
	}
	seen[k] = true
	if !hasFPOp(x, fpOpMemo) && !hasFPOp(y, fpOpMemo) {
		if x.Sort != y.Sort {
			return false
		}
		*out = append(*out, Eq(x, y))
		return true
	}
	if x.Op != y.Op || len(x.Args) != len(y.Args) || x.Sort != y.Sort {
		return false
	}
	for i := range x.Args {
		if !lockstep(x.Args[i], y.Args[i], out, seen) {
			return false
		}
	}
	return true
}
