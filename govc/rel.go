package main

// Relational (2-safety) obligations by self-composition: the function is executed twice on two
// symbolic receivers related by a spec-level equivalence, and the results must be equal.  Floating
// point operations are left uninterpreted (equal arguments give equal results by congruence), so the
// obligation is decided symbolically for all pairs of objects.

import (
	"sync"
	"encoding/json"
	"fmt"
	"go/types"
	"regexp"
	"path/filepath"
	"strings"
	"time"
)

type relSpec struct {
	Pkg      string
	Func     string
	Relation string // spec predicate over (a, b)
	Name     string
}

func (cc *CheckCtx) runRel(rs relSpec) {
	key := rs.Pkg + "." + rs.Func
	cc.Funcs[key] = true
	opts := RunOpts{NoSafety: true, InlineAll: true, SkipPost: true}
	fr1 := cc.W.RunFunc(rs.Pkg, rs.Func, opts)
	opts.Suffix = "_b"
	opts.FreshBase = 100000
	fr2 := cc.W.RunFunc(rs.Pkg, rs.Func, opts)
	if fr1.Err != "" || fr2.Err != "" {
		cc.funcErr(rs.Pkg, rs.Func, fr1.Err+fr2.Err)
		return
	}
	cc.noteWarn(fr1)
	for k := range fr1.VC.Inlined {
		cc.Inlined[k] = true
	}
	r1, ok1 := fr1.RetVals[0].(*Term)
	r2, ok2 := fr2.RetVals[0].(*Term)
	if !ok1 || !ok2 {
		cc.ToolErr = append(cc.ToolErr, key+": relational check needs scalar results")
		return
	}
	recv := func(fr *FuncRun) *Term {
		v := fr.Params[fr.Ex.fn.Params[0].Name()]
		if p, ok := v.(*PtrV); ok {
			v = fr.Entry.mem[p.A]
		}
		return structTerm(v.(*StructV))
	}
	a, b := recv(fr1), recv(fr2)
	V := rs.Pkg
	assumes := []*Term{App("wf"+V, SBool, a), App("wf"+V, SBool, b), App(rs.Relation, SBool, a, b)}
	// The two result terms have the same shape (same code executed twice).  Walk them in lockstep:
	// floating-point operations are matched structurally; every maximal subterm without a
	// floating-point operation (bit-vector tests, weight tables with literal leaves) must be equal.
	termMu.Lock()
	var atoms []*Term
	okShape := lockstep(Ite(fr1.RetPC, r1, FPLit(0)), Ite(fr2.RetPC, r2, FPLit(0)), &atoms, nil)
	goal := And(atoms...)
	if !okShape {
		termMu.Unlock()
		cc.ToolErr = append(cc.ToolErr, key+": the two executions produced differently shaped terms")
		return
	}
	script := ScriptFor(fr1.Prelude, assumes, goal, false)
	termMu.Unlock()
	cc.Extra["relational_atoms/"+key] = len(atoms)
	var sb strings.Builder
	sb.WriteString(script)
	to := 60
	if cc.Tier == "thorough" {
		to = 300
	}
	t0 := time.Now()
	name := fmt.Sprintf("gocvss%s.%s/rel/%s", rs.Pkg, rs.Func, rs.Name)
	sr := Solve(sb.String(), filepath.Join(smtOutDir, "rel"), slug(name), to, nil)
	r := ObResult{Name: name, Kind: "relational", Func: rs.Func, Pkg: rs.Pkg, Solver: sr.Solver, Seconds: time.Since(t0).Seconds(), File: filepath.Join(smtOutDir, "rel", slug(name)+".smt2")}
	switch sr.Status {
	case "unsat":
		r.Status = "proved"
	case "sat":
		r.Status = "refuted"
		r.Model = sr.Output
		cc.replayRel(fr1, fr2, sr.Output, &r)
	default:
		r.Status = "undischarged"
		r.Output = sr.Output
	}
	cc.Results = append(cc.Results, r)
}

var modelBVRe = regexp.MustCompile(`\(define-fun ([^\s()]+) \(\) \(_ BitVec 8\)\s+(#x[0-9a-fA-F]{2}|#b[01]{8})\)`)

// replayRel runs the real function on the two objects of a counterexample pair and compares.
func (cc *CheckCtx) replayRel(fr1, fr2 *FuncRun, model string, r *ObResult) {
	defer func() {
		if rec := recover(); rec != nil {
			r.Replay = &ReplayInfo{Note: fmt.Sprintf("replay not possible: %v", rec)}
		}
	}()
	vals := map[string]string{}
	for _, m := range modelBVRe.FindAllStringSubmatch(model, -1) {
		vals[m[1]] = m[2]
	}
	info := &ReplayInfo{Inputs: map[string]interface{}{}}
	r.Replay = info
	var observed []map[string]interface{}
	for i, fr := range []*FuncRun{fr1, fr2} {
		fn := fr.Ex.fn
		p := fn.Params[0]
		v := fr.Params[p.Name()]
		if pv, ok := v.(*PtrV); ok {
			v = fr.Entry.mem[pv.A]
		}
		sv := v.(*StructV)
		cv := map[string]string{}
		for k, f := range sv.Fields {
			sym := f.(*Term)
			x, ok := vals[sym.Name]
			if !ok {
				x = "#x00"
			}
			cv[p.Name()+"."+sv.T.Field(k).Name()] = x
		}
		t := p.Type()
		if pt, ok := t.Underlying().(*types.Pointer); ok {
			t = pt.Elem()
		}
		c, ok := concretize(cv, p.Name(), t, fn.Pkg.Pkg.Name())
		if !ok {
			info.Note = "cannot build the objects of the counterexample pair"
			return
		}
		sub := &ReplayInfo{Inputs: map[string]interface{}{}}
		cc.replayWith(fr, map[string]*concreteIn{p.Name(): c}, sub)
		info.Inputs[fmt.Sprintf("object%d", i+1)] = c.shown
		if i == 0 {
			info.TestSource = sub.TestSource
		}
		observed = append(observed, sub.Observed)
	}
	info.Observed = map[string]interface{}{"object1": observed[0], "object2": observed[1]}
	a, _ := json.Marshal(observed[0]["r0"])
	b, _ := json.Marshal(observed[1]["r0"])
	if observed[0] != nil && observed[1] != nil && string(a) != string(b) {
		info.Confirmed = true
		info.Note = "the real code returns different results for two objects that the specification treats alike"
		info.FailedClauses = []string{r.Name}
	} else {
		info.Note = "the two objects of the solver's pair give equal results on the real code (floating point is uninterpreted in this obligation, so the pair may be spurious)"
	}
}

func hasFPOp(t *Term, memo map[*Term]bool) bool {
	if v, ok := memo[t]; ok {
		return v
	}
	r := isFPOp(t) || t.Op == "fp.to_real" || strings.HasPrefix(t.Op, "fp.")
	if !r {
		for _, a := range t.Args {
			if hasFPOp(a, memo) {
				r = true
				break
			}
		}
	}
	memo[t] = r
	return r
}

var fpOpMemo = map[*Term]bool{}

// lockstep collects the equalities between corresponding FP-operation-free subterms of two equally
// shaped terms; it returns false when the shapes differ.  Subterms below an if-then-else are only
// required to agree under the branch condition (of the first execution; the conditions themselves
// are required to agree).
func lockstep(x, y *Term, out *[]*Term, seen map[[2]*Term]bool) bool {
	return lockstepG(x, y, True, out, map[[3]*Term]bool{})
}

func lockstepG(x, y, guard *Term, out *[]*Term, seen map[[3]*Term]bool) bool {
	if x == y {
		return true
	}
	k := [3]*Term{x, y, guard}
	if seen[k] {
		return true
	}
	seen[k] = true
	if !hasFPOp(x, fpOpMemo) && !hasFPOp(y, fpOpMemo) {
		if x.Sort != y.Sort {
			return false
		}
		*out = append(*out, Implies(guard, Eq(x, y)))
		return true
	}
	if x.Op != y.Op || len(x.Args) != len(y.Args) || x.Sort != y.Sort {
		return false
	}
	if x.Op == "ite" {
		if !lockstepG(x.Args[0], y.Args[0], guard, out, seen) {
			return false
		}
		return lockstepG(x.Args[1], y.Args[1], And(guard, x.Args[0]), out, seen) &&
			lockstepG(x.Args[2], y.Args[2], And(guard, Not(x.Args[0])), out, seen)
	}
	for i := range x.Args {
		if !lockstepG(x.Args[i], y.Args[i], guard, out, seen) {
			return false
		}
	}
	return true
}

var relSpecFuns40 = []string{"mveq1_40", "mveq2_40", "mveq3_40", "mveq4_40", "mveq5_40", "mveq6_40", "dist1_40", "dist2_40", "dist36_40", "dist4_40", "noImpact40"}

// runRel40: v4.0 Score depends only on the effective values (and not at all on the supplemental
// metrics).  For each MacroVector the function is executed twice (both executions are in the same
// MacroVector because related objects have equal macroVector() results by its contract) and the two
// result terms are compared in lockstep.
func (cc *CheckCtx) runRel40() {
	w := cc.W
	key := "40.(*CVSS40).Score"
	cc.Funcs[key] = true
	to := 60
	if cc.Tier == "thorough" {
		to = 300
	}
	type jb struct {
		name   string
		script string
	}
	var jobs []jb
	var cutObs []struct {
		fr *FuncRun
		o  *Oblig
		mv string
	}
	for i, e := range w.validMacroVectors() {
		var rv []Value
		for _, x := range e {
			rv = append(rv, IntLit(int64(x)))
		}
		cr := map[string][]Value{"(CVSS40).macroVector": rv}
		fr1 := w.RunFunc("40", "(*CVSS40).Score", RunOpts{ConcreteRet: cr, NoSafety: true, SkipPost: true, FreshBase: i * 100})
		fr2 := w.RunFunc("40", "(*CVSS40).Score", RunOpts{ConcreteRet: cr, NoSafety: true, SkipPost: true, Suffix: "_b", FreshBase: i*100 + 50})
		if fr1.Err != "" || fr2.Err != "" {
			cc.funcErr("40", "(*CVSS40).Score", fr1.Err+fr2.Err)
			return
		}
		for _, o := range fr1.VC.Obligs {
			if o.Kind == "cut" {
				cutObs = append(cutObs, struct {
					fr *FuncRun
					o  *Oblig
					mv string
				}{fr1, o, mvLabel(e)})
			}
		}
		a, b := recvTerm(fr1), recvTerm(fr2)
		r1, r2 := fr1.RetVals[0].(*Term), fr2.RetVals[0].(*Term)
		termMu.Lock()
		assumes := []*Term{App("wf40", SBool, a), App("wf40", SBool, b), App("sameEffective40", SBool, a, b)}
		// consequences of the relation at specification level, proved once as lemmas (below)
		for _, f := range relSpecFuns40 {
			srt := SInt
			if f == "noImpact40" {
				srt = SBool
			}
			assumes = append(assumes, Eq(App(f, srt, a), App(f, srt, b)))
		}
		assumes = append(assumes, fr1.VC.Assumes...)
		assumes = append(assumes, fr2.VC.Assumes...)
		var atoms []*Term
		ok := lockstep(r1, r2, &atoms, nil)
		if !ok {
			termMu.Unlock()
			cc.ToolErr = append(cc.ToolErr, key+": differently shaped executions for mv="+mvLabel(e))
			return
		}
		script := ScriptFor(fr1.Prelude, assumes, And(atoms...), false)
		termMu.Unlock()
		jobs = append(jobs, jb{fmt.Sprintf("gocvss40.(*CVSS40).Score/rel/depends_only_on_effective_values[mv=%s]", mvLabel(e)), script})
		if i == 0 {
			cc.noteWarn(fr1)
			for k := range fr1.VC.Inlined {
				cc.Inlined[k] = true
			}
			for k := range fr1.VC.Modular {
				cc.Modular[k] = true
			}
		}
	}
	// lemmas: related objects agree on every specification function the score is defined from
	for _, f := range relSpecFuns40 {
		cc.runLemma(Lemma{Name: "C10/lemma/same_effective_values_same_" + f, Pkg: "40",
			Script: "(declare-const a CVSS40)\n(declare-const b CVSS40)\n(assert (wf40 a))\n(assert (wf40 b))\n(assert (sameEffective40 a b))\n(assert (not (= (" + f + " a) (" + f + " b))))\n"})
	}
	res := make([]ObResult, len(jobs)+len(cutObs))
	var wg sync.WaitGroup
	sem := make(chan struct{}, parallelism)
	for i, j := range jobs {
		wg.Add(1)
		go func(i int, j jb) {
			defer wg.Done()
			sem <- struct{}{}
			defer func() { <-sem }()
			t0 := time.Now()
			sr := Solve(j.script, filepath.Join(smtOutDir, "rel"), slug(j.name), to, nil)
			r := ObResult{Name: j.name, Kind: "relational", Func: "(*CVSS40).Score", Pkg: "40", Solver: sr.Solver, Seconds: time.Since(t0).Seconds()}
			switch sr.Status {
			case "unsat":
				r.Status = "proved"
			case "sat":
				r.Status = "refuted"
				r.Model = sr.Output
			default:
				r.Status = "undischarged"
				r.Output = sr.Output
			}
			res[i] = r
		}(i, j)
	}
	// the cuts assumed inside each execution are obligations of this check as well
	for i, c := range cutObs {
		wg.Add(1)
		go func(i int, fr *FuncRun, o *Oblig, mv string) {
			defer wg.Done()
			sem <- struct{}{}
			defer func() { <-sem }()
			oo := *o
			oo.Name = o.Name + "[mv=" + mv + "]"
			res[len(jobs)+i] = dischargeOne(fr, &oo, to)
		}(i, c.fr, c.o, c.mv)
	}
	wg.Wait()
	cc.Results = append(cc.Results, res...)
}
