package main

// Solver racing: every obligation script is given to z3 4.8.12, z3 5.1.0 (z3-new) and cvc5;
// the first definite answer wins.

import (
	"bytes"
	"context"
	"fmt"
	"os"
	"os/exec"
	"path/filepath"
	"strings"
	"sync"
	"time"
)

type SolveResult struct {
	Status  string // "unsat", "sat", "unknown"
	Solver  string
	Seconds float64
	Output  string // full stdout of the winning (or last) solver
	All     map[string]string
}

type solverDef struct {
	name string
	cmd  func(file string, timeoutS int) []string
}

var solvers = []solverDef{
	{"z3-4.8.12", func(f string, t int) []string { return []string{"z3", fmt.Sprintf("-T:%d", t), f} }},
	{"z3-5.1.0", func(f string, t int) []string { return []string{"z3-new", fmt.Sprintf("-T:%d", t), f} }},
	{"cvc5-1.0", func(f string, t int) []string {
		return []string{"cvc5", "--incremental", fmt.Sprintf("--tlimit=%d", t*1000), f}
	}},
}

var solverStats = struct {
	sync.Mutex
	wins    map[string]int
	seconds map[string]float64
}{wins: map[string]int{}, seconds: map[string]float64{}}

// firstStatus extracts the first sat/unsat/unknown token line.
func firstStatus(out string) string {
	for _, ln := range strings.Split(out, "\n") {
		ln = strings.TrimSpace(ln)
		switch ln {
		case "sat", "unsat", "unknown", "timeout":
			if ln == "timeout" {
				return "unknown"
			}
			return ln
		}
	}
	return "unknown"
}

// allStatuses returns every sat/unsat/unknown line (for multi check-sat scripts).
func allStatuses(out string) []string {
	var r []string
	for _, ln := range strings.Split(out, "\n") {
		ln = strings.TrimSpace(ln)
		switch ln {
		case "sat", "unsat", "unknown":
			r = append(r, ln)
		case "timeout":
			r = append(r, "unknown")
		}
	}
	return r
}

// Solve races the solvers on a single-check-sat script. useCvc5=false for z3-specific syntax.
func Solve(script string, dir, name string, timeoutS int, which []string) SolveResult {
	os.MkdirAll(dir, 0o755)
	file := filepath.Join(dir, name+".smt2")
	os.WriteFile(file, []byte(script), 0o644)
	ctx, cancel := context.WithCancel(context.Background())
	defer cancel()
	type res struct {
		solver string
		status string
		out    string
		secs   float64
	}
	ch := make(chan res, len(solvers))
	n := 0
	for _, s := range solvers {
		ok := len(which) == 0
		for _, w := range which {
			if strings.HasPrefix(s.name, w) {
				ok = true
			}
		}
		if !ok {
			continue
		}
		n++
		go func(s solverDef) {
			args := s.cmd(file, timeoutS)
			t0 := time.Now()
			c := exec.CommandContext(ctx, args[0], args[1:]...)
			var ob bytes.Buffer
			c.Stdout = &ob
			c.Stderr = &ob
			c.Run()
			out := ob.String()
			st := firstStatus(out)
			if errorBeforeStatus(out) {
				st = "error"
			}
			ch <- res{s.name, st, out, time.Since(t0).Seconds()}
		}(s)
	}
	r := SolveResult{Status: "unknown", All: map[string]string{}}
	for i := 0; i < n; i++ {
		x := <-ch
		r.All[x.solver] = x.status
		if x.status == "unsat" || x.status == "sat" {
			if r.Status == "unknown" {
				r.Status, r.Solver, r.Seconds, r.Output = x.status, x.solver, x.secs, x.out
				solverStats.Lock()
				solverStats.wins[x.solver]++
				solverStats.seconds[x.solver] += x.secs
				solverStats.Unlock()
				cancel()
			}
		} else if r.Status == "unknown" {
			r.Output += "--- " + x.solver + " ---\n" + truncate(x.out, 2000) + "\n"
			if x.secs > r.Seconds {
				r.Seconds = x.secs
			}
		}
	}
	return r
}

func truncate(s string, n int) string {
	if len(s) > n {
		return s[:n] + "...[truncated]"
	}
	return s
}

// RunBatch runs one solver (z3 by preference) on a script that contains many check-sat commands and
// returns the status list.
func RunBatch(script string, dir, name string, timeoutS int, solver string) ([]string, string, float64) {
	os.MkdirAll(dir, 0o755)
	file := filepath.Join(dir, name+".smt2")
	os.WriteFile(file, []byte(script), 0o644)
	var args []string
	for _, s := range solvers {
		if strings.HasPrefix(s.name, solver) {
			args = s.cmd(file, timeoutS)
		}
	}
	t0 := time.Now()
	c := exec.Command(args[0], args[1:]...)
	var ob bytes.Buffer
	c.Stdout = &ob
	c.Stderr = &ob
	c.Run()
	return allStatuses(ob.String()), ob.String(), time.Since(t0).Seconds()
}

// errorBeforeStatus: a solver error message before the first status line means the script was not
// understood as written; such an answer is never trusted.
func errorBeforeStatus(out string) bool {
	for _, ln := range strings.Split(out, "\n") {
		t := strings.TrimSpace(ln)
		switch t {
		case "sat", "unsat", "unknown", "timeout":
			return false
		}
		if strings.HasPrefix(t, "(error") {
			return true
		}
	}
	return false
}
