package main

// C12: monotonicity in the specification's severity order, decided on pairs of instances of the
// implementation's own terms (no oracle): the function is executed twice and the results compared.

import (
	"fmt"
	"path/filepath"
	"strings"

	"golang.org/x/tools/go/ssa"
)

type monoStage struct {
	Name  string
	Pkg   string
	Func  string
	Opts  RunOpts
	Tier  string
	Space string
	Build func(frA, frB *FuncRun, scA, scB *stageCtx) ([]CaseGoal, []CaseInst)
}

func (cc *CheckCtx) runMono(ms monoStage) {
	if ms.Tier == "thorough" && cc.Tier != "thorough" {
		cc.Notes = append(cc.Notes, fmt.Sprintf("stage %s (%s) is part of the thorough tier only", ms.Name, ms.Space))
		return
	}
	if ms.Tier == "quick" && cc.Tier == "thorough" {
		return // subsumed by the exhaustive stage of the thorough tier
	}
	st := stage{Name: ms.Name, Pkg: ms.Pkg, Func: ms.Func, Opts: ms.Opts}
	frA, scA := cc.execStage(st, "", 0)
	frB, scB := cc.execStage(st, "_b", 100000)
	key := ms.Pkg + "." + ms.Func
	cc.Funcs[key] = true
	if frA.Err != "" || frB.Err != "" {
		cc.funcErr(ms.Pkg, ms.Func, frA.Err+frB.Err)
		return
	}
	cc.noteWarn(frA)
	for k := range frA.VC.Inlined {
		cc.Inlined[k] = true
	}
	for k := range frA.VC.Modular {
		cc.Modular[k] = true
	}
	goals, insts := ms.Build(frA, frB, scA, scB)
	assumes := append(append([]*Term(nil), frA.VC.Assumes...), frB.VC.Assumes...)
	res := RunCases(frA.Prelude, assumes, goals, insts, filepath.Join(smtOutDir, "cases"), slug("mono."+ms.Pkg+"."+ms.Func+"."+ms.Name), 900)
	cc.Instances += res.Instances
	if res.ToolErr != "" {
		cc.ToolErr = append(cc.ToolErr, res.ToolErr)
	}
	if len(res.Vacuous) > 0 {
		cc.ToolErr = append(cc.ToolErr, fmt.Sprintf("stage %s: %d pairs violate the assumptions (vacuous), e.g. %s", ms.Name, len(res.Vacuous), res.Vacuous[0]))
	}
	stages, _ := cc.Extra["case_split_stages"].([]interface{})
	stages = append(stages, map[string]interface{}{"stage": key + "/" + ms.Name, "domain": ms.Space, "instances": res.Instances, "goals_per_instance": len(goals), "solver_queries": res.SolverCalls, "decided_by_simplifier": res.BySimplifier, "seconds": res.Seconds, "exhaustive": true})
	cc.Extra["case_split_stages"] = stages
	if len(insts) > 0 {
		cc.Samples = append(cc.Samples, map[string]interface{}{"stage": ms.Name, "function": key, "pair": insts[int(cc.Seed%int64(len(insts))+int64(len(insts)))%len(insts)].Label})
	}
	for gi, g := range goals {
		r := ObResult{Name: g.Name + "[" + ms.Name + "]", Kind: "mono/case-split", Func: ms.Func, Pkg: ms.Pkg, Solver: "z3(ground evaluation)", Seconds: res.Seconds / float64(len(goals)+1)}
		var bad []caseFail
		for _, f := range res.Fails {
			if f.Goal == gi {
				bad = append(bad, f)
			}
		}
		switch {
		case len(bad) == 0 && res.ToolErr == "" && !res.Skipped[gi]:
			r.Status = "proved"
		case len(bad) == 0:
			r.Status = "undischarged"
			r.Output = res.ToolErr
		default:
			r.Status = "refuted"
			var ls []string
			for i, f := range bad {
				if i < 8 {
					ls = append(ls, f.Label+" ("+f.Status+")")
				}
			}
			r.Output = fmt.Sprintf("%d of %d pairs fail, e.g. %s", len(bad), res.Instances, strings.Join(ls, "; "))
			// replay: both objects of the first failing pair on the real code
			for _, in := range insts {
				if in.Label == bad[0].Label {
					if ci, ok := concretizeInst(&res, in); ok {
						in = ci
					}
					cc.replayPair(frA, frB, in, &r)
					break
				}
			}
		}
		cc.Results = append(cc.Results, r)
	}
	cc.Exhaustive = true
}

// replayPair runs the real function on both objects of a pair (when the pair fixes whole objects).
func (cc *CheckCtx) replayPair(frA, frB *FuncRun, in CaseInst, r *ObResult) {
	cc.replayPair2(frA, frB, in, in, r)
}

func (cc *CheckCtx) replayPair2(frA, frB *FuncRun, inA, in CaseInst, r *ObResult) {
	defer func() {
		if rec := recover(); rec != nil {
			r.Replay = &ReplayInfo{Note: fmt.Sprintf("replay not possible: %v", rec)}
		}
	}()
	info := &ReplayInfo{Inputs: map[string]interface{}{"pair": in.Label}}
	r.Replay = info
	var obs []map[string]interface{}
	for k, fr := range []*FuncRun{frA, frB} {
		sub := &ObResult{}
		if k == 0 {
			cc.replayInstance(fr, inA, sub)
		} else {
			cc.replayInstance(fr, in, sub)
		}
		if sub.Replay == nil || sub.Replay.Observed == nil {
			info.Note = "the pair does not fix whole objects (cut stage); no direct replay"
			return
		}
		obs = append(obs, sub.Replay.Observed)
		if info.TestSource == "" {
			info.TestSource = sub.Replay.TestSource
		}
	}
	info.Observed = map[string]interface{}{"less_severe": obs[0], "more_severe": obs[1]}
	fa, oka := obsFloat(obs[0]["r0"])
	fb, okb := obsFloat(obs[1]["r0"])
	if oka && okb && fa > fb {
		info.Confirmed = true
		info.FailedClauses = []string{r.Name}
		info.Note = fmt.Sprintf("the real code scores the less severe object %v and the more severe one %v", fa, fb)
	} else {
		info.Note = "the real code does not show the decrease on this pair"
	}
}

func obsFloat(o interface{}) (float64, bool) {
	m, ok := o.(map[string]interface{})
	if !ok || m["kind"] != "float" {
		return 0, false
	}
	var f float64
	_, err := fmt.Sscan(fmt.Sprint(m["text"]), &f)
	return f, err == nil
}

// severitySteps lists, for an assignment of codes, the assignments obtained by making one of the
// given metrics one step more severe.
func severitySteps(spec *Spec, rp *Repr, metrics []string, codes map[string]int) []struct {
	M     string
	Codes map[string]int
} {
	var out []struct {
		M     string
		Codes map[string]int
	}
	for _, m := range metrics {
		sev := spec.Severity[m]
		if sev == nil {
			continue
		}
		f := rp.Field(m)
		cur := f.Codes[codes[m]]
		pos := -1
		for i, v := range sev {
			if v == cur {
				pos = i
			}
		}
		if pos < 0 || pos == len(sev)-1 {
			continue
		}
		next := sev[pos+1]
		nc := -1
		for i, v := range f.Codes {
			if v == next {
				nc = i
			}
		}
		if nc < 0 {
			continue
		}
		cp := map[string]int{}
		for k, v := range codes {
			cp[k] = v
		}
		cp[m] = nc
		out = append(out, struct {
			M     string
			Codes map[string]int
		}{m, cp})
	}
	return out
}

func resultTerm(fr *FuncRun) *Term {
	return fr.RetVals[0].(*Term)
}

func leqGoal(pkg, fn, label string, a, b *Term) CaseGoal {
	return CaseGoal{Name: fmt.Sprintf("gocvss%s.%s/mono/%s", pkg, fn, label), Kind: "mono", Cond: App("fp.leq", SBool, a, b)}
}

func mergeSub(a, b map[*Term]*Term) map[*Term]*Term {
	n := make(map[*Term]*Term, len(a)+len(b))
	for k, v := range a {
		n[k] = v
	}
	for k, v := range b {
		n[k] = v
	}
	return n
}

// objectPairs: all classes over 'metrics' x one severity step in one of them.
func objectPairs(frA, frB *FuncRun, sc *stageCtx, metrics []string) []CaseInst {
	return objectPairsF(frA, frB, sc, metrics, nil)
}

func objectPairsF(frA, frB *FuncRun, sc *stageCtx, metrics []string, keep func(codes map[string]int) bool, fixed ...map[string]int) []CaseInst {
	symsA, symsB := receiverSyms(frA), receiverSyms(frB)
	var order []string
	for _, f := range sc.rp.Fields {
		order = append(order, f.Metric)
	}
	var out []CaseInst
	enumCodes(sc.rp, metrics, func(codes map[string]int) {
		if keep != nil && !keep(codes) {
			return
		}
		for _, fx := range fixed {
			for k, v := range fx {
				codes[k] = v
			}
		}
		for _, st := range severitySteps(sc.spec, sc.rp, metrics, codes) {
			sub := mergeSub(objSubP(symsA, packObject(sc.rp, codes), knownMask(sc.rp, codes)), objSubP(symsB, packObject(sc.rp, st.Codes), knownMask(sc.rp, st.Codes)))
			out = append(out, CaseInst{Sub: sub, Label: objLabel(sc.rp, codes, order) + "  ->  " + st.M + ":" + sc.rp.Field(st.M).Codes[st.Codes[st.M]]})
		}
	})
	return out
}

// cutPairs: monotonicity of the rounding stage h(k, t) = round(k/10 * weights(t)) in k and in the
// metrics t, for a function whose first stage enters through a cut symbol (callee result or inner
// rounding).
func cutPairs(frA, frB *FuncRun, sc *stageCtx, tmetrics []string, cutA, cutB []*Term, specA, specB *Term, lo, hi int, negZero bool, ground ...bool) []CaseInst {
	symsA, symsB := receiverSyms(frA), receiverSyms(frB)
	isGround := len(ground) > 0 && ground[0]
	restZero := map[*Term]*Term{}
	for _, s := range symsA {
		restZero[restSym(s)] = BVLit(0, 8)
	}
	var order []string
	for _, f := range sc.rp.Fields {
		order = append(order, f.Metric)
	}
	var out []CaseInst
	mk := func(codesA, codesB map[string]int, va, vb *Term, ka, kb int, label string) {
		sub := mergeSub(objSubP(symsA, packObject(sc.rp, codesA), knownMask(sc.rp, codesA)), objSubP(symsB, packObject(sc.rp, codesB), knownMask(sc.rp, codesB)))
		if isGround {
			memo := map[*Term]*Term{}
			for k, v := range sub {
				sub[k] = Subst(v, restZero, memo)
			}
		}
		for _, c := range cutA {
			sub[c] = va
		}
		for _, c := range cutB {
			sub[c] = vb
		}
		if specA != nil {
			sub[specA] = IntLit(int64(ka))
			sub[specB] = IntLit(int64(kb))
		}
		out = append(out, CaseInst{Sub: sub, Label: label})
	}
	enumCodes(sc.rp, tmetrics, func(codes map[string]int) {
		tl := objLabel(sc.rp, codes, order)
		for k := lo; k < hi; k++ {
			mk(codes, codes, tenthOf(k), tenthOf(k+1), k, k+1, fmt.Sprintf("%g -> %g / %s", float64(k)/10, float64(k+1)/10, tl))
		}
		if negZero {
			mk(codes, codes, negZero_(), tenthOf(0), 0, 0, "-0.0 -> 0.0 / "+tl)
			mk(codes, codes, tenthOf(0), negZero_(), 0, 0, "0.0 -> -0.0 / "+tl)
		}
		for _, st := range severitySteps(sc.spec, sc.rp, tmetrics, codes) {
			for k := lo; k <= hi; k++ {
				mk(codes, st.Codes, tenthOf(k), tenthOf(k), k, k, fmt.Sprintf("%g / %s -> %s:%s", float64(k)/10, tl, st.M, sc.rp.Field(st.M).Codes[st.Codes[st.M]]))
			}
			if negZero {
				mk(codes, st.Codes, negZero_(), negZero_(), 0, 0, fmt.Sprintf("-0.0 / %s -> %s", tl, st.M))
			}
		}
	})
	return out
}

func negZero_() *Term { return negZero }

func callSyms(sc *stageCtx, name string, subst bool) []*Term {
	var out []*Term
	for _, c := range sc.calls[name] {
		if subst {
			if s, ok := c.sub.(*Term); ok {
				out = append(out, s)
			}
		} else if s, ok := c.res.(*Term); ok {
			out = append(out, s)
		}
	}
	return out
}

func monoStages(cc *CheckCtx) []monoStage {
	var ms []monoStage
	// v2.0 base and temporal
	v2base := []string{"AV", "AC", "Au", "C", "I", "A"}
	ms = append(ms, monoStage{Name: "base-steps", Pkg: "20", Func: "(CVSS20).BaseScore", Space: "729 base classes x one-step increases",
		Build: func(frA, frB *FuncRun, scA, scB *stageCtx) ([]CaseGoal, []CaseInst) {
			return []CaseGoal{leqGoal("20", "(CVSS20).BaseScore", "more_severe_not_lower", resultTerm(frA), resultTerm(frB))}, objectPairs(frA, frB, scA, v2base)
		}})
	ms = append(ms, monoStage{Name: "rounding-stage-steps", Pkg: "20", Func: "(CVSS20).TemporalScore", Space: "base value steps k -> k+1 (0..100, -0.0) x E,RL,RC; temporal steps x all base values",
		Build: func(frA, frB *FuncRun, scA, scB *stageCtx) ([]CaseGoal, []CaseInst) {
			ra, rb := callSyms(scA, "(CVSS20).BaseScore", false), callSyms(scB, "(CVSS20).BaseScore", false)
			recvA := structTerm(frA.Params["cvss20"].(*StructV))
			recvB := structTerm(frB.Params["cvss20"].(*StructV))
			insts := cutPairs(frA, frB, scA, []string{"E", "RL", "RC"}, ra, rb, nil, nil, 0, 100, true)
			relA := App("baseRel20", SBool, recvA, App("kof", SInt, ra[0]))
			relB := App("baseRel20", SBool, recvB, App("kof", SInt, rb[0]))
			for i := range insts {
				insts[i].Sub[relA] = True
				insts[i].Sub[relB] = True
			}
			return []CaseGoal{leqGoal("20", "(CVSS20).TemporalScore", "more_severe_not_lower", resultTerm(frA), resultTerm(frB))}, insts
		}})
	for _, v := range []string{"30", "31"} {
		v := v
		T := "CVSS" + v
		ms = append(ms, monoStage{Name: "base-steps", Pkg: v, Func: "(" + T + ").BaseScore", Space: "2592 base classes x one-step increases",
			Build: func(frA, frB *FuncRun, scA, scB *stageCtx) ([]CaseGoal, []CaseInst) {
				return []CaseGoal{leqGoal(v, "("+T+").BaseScore", "more_severe_not_lower", resultTerm(frA), resultTerm(frB))}, objectPairs(frA, frB, scA, v3Base)
			}})
		ms = append(ms, monoStage{Name: "rounding-stage-steps", Pkg: v, Func: "(" + T + ").TemporalScore", Space: "base value steps k -> k+1 (0..100) x E,RL,RC; temporal steps x all base values",
			Build: func(frA, frB *FuncRun, scA, scB *stageCtx) ([]CaseGoal, []CaseInst) {
				ra, rb := callSyms(scA, "("+T+").BaseScore", false), callSyms(scB, "("+T+").BaseScore", false)
				insts := cutPairs(frA, frB, scA, v3Temporal, ra, rb, specApp("base"+v+"K", frA), specApp("base"+v+"K", frB), 0, 100, false)
				return []CaseGoal{leqGoal(v, "("+T+").TemporalScore", "more_severe_not_lower", resultTerm(frA), resultTerm(frB))}, insts
			}})
	}
	// v3.1 environmental: outer rounding stage (quick) and inner stage over all effective classes (thorough)
	cutHook := func(ex *Exec, call *ssa.Call, name string, ord int, res Value, pc *Term, st *State) Value {
		if name == "roundup" && ex.depth == 0 && (ord == 1 || ord == 3) {
			return ex.vc.Fresh(fmt.Sprintf("cut.inner_roundup%d", ord), SF64)
		}
		return nil
	}
	ms = append(ms, monoStage{Name: "rounding-stage-steps", Pkg: "31", Func: "(CVSS31).EnvironmentalScore", Opts: RunOpts{OnCall: cutHook},
		Space: "inner Roundup value steps k -> k+1 (0..100) x E,RL,RC; temporal steps x all inner values",
		Build: func(frA, frB *FuncRun, scA, scB *stageCtx) ([]CaseGoal, []CaseInst) {
			ca, cb := callSyms(scA, "roundup", true), callSyms(scB, "roundup", true)
			insts := cutPairs(frA, frB, scA, v3Temporal, ca, cb, specApp("envInner31K", frA), specApp("envInner31K", frB), 0, 100, false, true)
			return []CaseGoal{leqGoal("31", "(CVSS31).EnvironmentalScore", "more_severe_not_lower", resultTerm(frA), resultTerm(frB))}, insts
		}})
	for _, variant := range []struct{ name, tier, space string }{
		{"inner-stage-steps[equal requirements]", "quick", "effective classes with CR=IR=AR in {L,M,H} plus all requirement triples for three exploitability classes (about 17000 of 165888; the thorough tier covers all) x one-step increases of any of the 11 metrics: zero-impact flag and inner Roundup value"},
		{"inner-stage-steps", "thorough", "165888 effective classes (8 effective metrics x CR,IR,AR) x one-step increases: zero-impact flag and inner Roundup value"},
	} {
		variant := variant
		ms = append(ms, monoStage{Name: variant.name, Pkg: "31", Func: "(CVSS31).EnvironmentalScore", Opts: RunOpts{OnCall: cutHook}, Tier: variant.tier,
			Space: variant.space,
			Build: func(frA, frB *FuncRun, scA, scB *stageCtx) ([]CaseGoal, []CaseInst) {
				metrics := append(append([]string{}, v3Base...), "CR", "IR", "AR")
				var keep func(map[string]int) bool
				if variant.tier == "quick" {
					keep = func(codes map[string]int) bool {
						val := func(m string) string { return scA.rp.Field(m).Codes[codes[m]] }
						expl := val("AV") + val("AC") + val("PR") + val("UI")
						return (val("CR") == val("IR") && val("IR") == val("AR") && val("CR") != "X") || expl == "NLNN" || expl == "PHHR" || expl == "ALLN"
					}
				}
				insts := objectPairsF(frA, frB, scA, metrics, keep, fixedAt(scA.rp, append(append([]string{}, v3Modified...), v3Temporal...), "X"))
				five := tenthOf(50)
				inner := func(sc *stageCtx) *Term {
					var t *Term
					for i := len(sc.calls["roundup"]) - 1; i >= 0; i-- {
						c := sc.calls["roundup"][i]
						if _, ok := c.sub.(*Term); !ok {
							continue
						}
						if t == nil {
							t = c.res.(*Term)
						} else {
							t = Ite(c.pc, c.res.(*Term), t)
						}
					}
					return t
				}
				for i := range insts {
					for _, c := range append(callSyms(scA, "roundup", true), callSyms(scB, "roundup", true)...) {
						insts[i].Sub[c] = five
					}
				}
				zA := App("fp.isZero", SBool, resultTerm(frA))
				zB := App("fp.isZero", SBool, resultTerm(frB))
				goals := []CaseGoal{
					{Name: "gocvss31.(CVSS31).EnvironmentalScore/mono/zero_impact_only_for_less_severe", Kind: "mono", Cond: Implies(zB, zA)},
					{Name: "gocvss31.(CVSS31).EnvironmentalScore/mono/inner_value_not_lower", Kind: "mono", Cond: Implies(Not(zA), App("fp.leq", SBool, inner(scA), inner(scB)))},
				}
				return goals, insts
			}})
	}
	return ms
}

func init() {
	props["C12"] = &PropDef{
		ID: "C12",
		Custom: func(cc *CheckCtx) {
			for _, m := range monoStages(cc) {
				cc.runMono(m)
			}
			c12v4(cc)
			c10v3(cc)
			if cc.Tier != "thorough" {
				cc.Exhaustive = false
				cc.Notes = append(cc.Notes, "quick tier: exhaustive for v2.0, v3.0 and the v3.1 base/temporal/outer-environmental stages; the v3.1 inner environmental stage (7,776 of 165,888 classes) and the v4.0 abstract states (box corners of 52,650 states) are stated subsets, complete in the thorough tier")
			}
		},
		Trusted: append(append([]string{}, trustedCommon...),
			"T3 IEEE-754 binary64 evaluation by the solver's own floating-point implementation"),
		Assumptions: []string{
			"no oracle: the implementation's own terms are compared on every pair of classes that differ by one severity step of one metric",
			"stage composition: a score that is round(stage value x weights) is monotone in the stage value (checked for every unit step k -> k+1 of the one-decimal stage value) and in each weight metric; the stage value itself is monotone on all classes; Modified/undefined metrics are covered through their effective values (C10)",
			"scope as stated by the property: v2.0 and v3.0 base and temporal, v3.1 all three, v4.0 Score",
			"v4.0: Score is a function of (MacroVector, four severity distances) on the main path (C04's cut obligations and macroVector's contract, re-discharged here); a one-step increase of one metric changes the state of one EQ group only (EQ3/EQ6 jointly), the realizable group transitions are enumerated by the solver from the specification functions; combining a realizable group transition with every state of the other groups over-approximates the neighbourhood graph",
		},
	}
}

var c12v4 = func(cc *CheckCtx) {
	cc.runMono40()
	// the abstraction "Score is a function of (MacroVector, distances)" rests on C04's cuts and on
	// macroVector's contract: re-discharged here because this check assumes them
	cc.runScore40(`^$`, true)
	cc.runTask(Task{Pkg: "40", Func: "(CVSS40).macroVector", Match: `/post/eq\d$|/safety/`})
	for _, l := range score40Lemmas(cc.W, cc.Tier) {
		cc.runLemma(l)
	}
}
