package main

import (
	"fmt"
	"strings"
	"go/types"

	"golang.org/x/tools/go/ssa"
)

const maxUnroll = 4096

func (ex *Exec) loopDirs(li *loopInfo, kind string) []Directive {
	var r []Directive
	if ex.fc == nil {
		return r
	}
	for _, d := range ex.fc.Dirs {
		if d.Loop == li.ord && d.Kind == kind {
			if strings.Contains(d.Text, "allocs") && ex.entry != nil && ex.entry.allocs == nil {
				continue // allocation clauses only apply when the ghost counter is tracked
			}
			r = append(r, d)
		}
	}
	return r
}

// loopMayAllocate: does the loop body contain anything that can change the ghost allocation counter?
func loopMayAllocate(li *loopInfo) bool {
	for b := range li.blocks {
		for _, ins := range b.Instrs {
			switch i := ins.(type) {
			case *ssa.MakeSlice, *ssa.MakeInterface, *ssa.MakeClosure, *ssa.MakeMap, *ssa.MakeChan:
				return true
			case *ssa.Alloc:
				if i.Heap {
					return true
				}
			case *ssa.Call:
				if bi, ok := i.Call.Value.(*ssa.Builtin); ok && (bi.Name() == "len" || bi.Name() == "cap") {
					continue
				}
				return true
			}
		}
	}
	return false
}

func (ex *Exec) execLoop(li *loopInfo, entry []Edge) []Edge {
	invs := ex.loopDirs(li, "invariant")
	if len(invs) == 0 || ex.depth > 0 {
		// inlined helpers are executed exactly (their own invariants belong to their own proof)
		return ex.unrollLoop(li, entry)
	}
	return ex.cutLoop(li, entry, invs)
}

// unrollLoop executes the loop exactly, iteration by iteration; it requires the back-edge
// condition to become constant false after finitely many iterations (loops over constant tables).
func (ex *Exec) unrollLoop(li *loopInfo, entry []Edge) []Edge {
	var exits []Edge
	edges := entry
	for iter := 0; ; iter++ {
		if iter > maxUnroll {
			ex.unsupported("loop %d at block %d has no invariant and does not terminate concretely", li.ord, li.header.Index)
		}
		in := map[*ssa.BasicBlock][]Edge{}
		// execute header block with the given incoming edges
		out := ex.execBlockInLoop(li, edges, in)
		var back []Edge
		for _, e := range out {
			if e.to == li.header {
				back = append(back, e)
			} else {
				exits = append(exits, e)
			}
		}
		if len(back) == 0 {
			break
		}
		edges = back
	}
	return exits
}

// execBlockInLoop runs one iteration of the loop body starting at the header.
func (ex *Exec) execBlockInLoop(li *loopInfo, edges []Edge, in map[*ssa.BasicBlock][]Edge) []Edge {
	var out []Edge
	hdrOut := ex.execBlock(li.header, edges)
	for _, e := range hdrOut {
		if e.pc.IsFalse() {
			continue
		}
		if li.blocks[e.to] && e.to != li.header {
			in[e.to] = append(in[e.to], e)
		} else {
			out = append(out, e)
		}
	}
	scope := map[*ssa.BasicBlock]bool{}
	for b := range li.blocks {
		if b != li.header {
			scope[b] = true
		}
	}
	rest := ex.execScope(li, scope, in)
	return append(out, rest...)
}

// cutLoop: classic invariant cut.
func (ex *Exec) cutLoop(li *loopInfo, entry []Edge, invs []Directive) []Edge {
	h := li.header
	tag := fmt.Sprintf("loop%d", li.ord)
	// 1. phi values and state on entry
	phiIn := map[*ssa.Phi]Value{}
	var phis []*ssa.Phi
	for _, ins := range h.Instrs {
		if phi, ok := ins.(*ssa.Phi); ok {
			phis = append(phis, phi)
			phiIn[phi] = ex.phiValue(phi, entry)
		} else {
			break
		}
	}
	pcIn, stIn := ex.mergeEdges(entry)
	// invariant established
	ctx0 := &Ctx{ex: ex, fn: ex.fn, fc: ex.fc, st: stIn, old: ex.entry, params: ex.paramMap(), pc: pcIn, phiOv: phiIn, loop: li}
	for _, d := range invs {
		ex.vc.Oblige(ex.obName(tag, "inv_established/"+d.Label), "inv", Implies(pcIn, ctx0.evalBool(d.Text)))
	}
	// 2. havoc
	st := stIn.Clone()
	mods := ex.loopModifies(li)
	for a := range st.mem {
		if a.Const {
			continue
		}
		if mods != nil && !mods[a] {
			continue
		}
		st.mem[a] = ex.freshLike(fmt.Sprintf("%s.%s", tag, a.Name), st.mem[a], a.Typ)
	}
	if st.allocs != nil && loopMayAllocate(li) {
		st.allocs = ex.vc.Fresh(tag+".allocs", SInt)
	}
	phiH := map[*ssa.Phi]Value{}
	for _, phi := range phis {
		name := phi.Comment
		if name == "" {
			name = phi.Name()
		}
		phiH[phi] = ex.freshValue(tag+"."+name, phi.Type(), st)
	}
	ctxH := &Ctx{ex: ex, fn: ex.fn, fc: ex.fc, st: st, old: ex.entry, params: ex.paramMap(), pc: pcIn, phiOv: phiH, loop: li}
	for _, d := range invs {
		ex.vc.Assume(Implies(pcIn, ctxH.evalBool(d.Text)))
	}
	if ex.hdrState == nil {
		ex.hdrState = map[*loopInfo]*State{}
		ex.hdrPhis = map[*loopInfo]map[*ssa.Phi]Value{}
	}
	ex.hdrState[li] = st.Clone()
	ex.hdrPhis[li] = phiH
	var variant0 *Term
	decr := ex.loopDirs(li, "decreases")
	if len(decr) > 0 {
		variant0 = ctxH.evalTerm(decr[0].Text)
	}
	// 3. one symbolic iteration
	for phi, v := range phiH {
		ex.env[phi] = v
	}
	in := map[*ssa.BasicBlock][]Edge{}
	hdrOut := ex.execInstrs(h, len(phis), pcIn, st.Clone())
	var out []Edge
	for _, e := range hdrOut {
		if e.pc.IsFalse() {
			continue
		}
		if li.blocks[e.to] && e.to != h {
			in[e.to] = append(in[e.to], e)
		} else {
			out = append(out, e)
		}
	}
	scope := map[*ssa.BasicBlock]bool{}
	for b := range li.blocks {
		if b != h {
			scope[b] = true
		}
	}
	out = append(out, ex.execScope(li, scope, in)...)
	// 4. back edges: invariant preserved, variant decreases
	var exits []Edge
	nback := 0
	for _, e := range out {
		if e.to != h {
			// restore the header symbols for names evaluated on exit edges
			for phi, v := range phiH {
				ex.env[phi] = v
			}
			ex.pointDirectives(fmt.Sprintf("exit loop%d", li.ord), nil, e.pc, e.st, li)
			exits = append(exits, e)
			continue
		}
		nback++
		phiB := map[*ssa.Phi]Value{}
		for _, phi := range phis {
			phiB[phi] = ex.phiValue(phi, []Edge{e})
		}
		ctxB := &Ctx{ex: ex, fn: ex.fn, fc: ex.fc, st: e.st, old: ex.entry, params: ex.paramMap(), pc: e.pc, phiOv: phiB, loop: li, envOv: e.env}
		for _, d := range ex.loopDirs(li, "lemma_back") {
			// lemma on the back edge: asserted, then assumed for the preservation obligations
			g := ctxB.evalBool(d.Text)
			ex.vc.Oblige(ex.obName(tag, fmt.Sprintf("lemma_back/%s/back%d", d.Label, nback)), "lemma", Implies(e.pc, g))
			ex.vc.Assume(Implies(e.pc, g))
		}
		for _, d := range invs {
			g := ctxB.evalBool(d.Text)
			if e.pc.Op == "or" && len(e.pc.Args) <= 8 {
				// one obligation per path reaching the back edge
				for k, disj := range e.pc.Args {
					ex.vc.Oblige(ex.obName(tag, fmt.Sprintf("inv_preserved/%s/back%d/path%d", d.Label, nback, k+1)), "inv", Implies(disj, g))
				}
				continue
			}
			ex.vc.Oblige(ex.obName(tag, fmt.Sprintf("inv_preserved/%s/back%d", d.Label, nback)), "inv", Implies(e.pc, g))
		}
		if variant0 != nil {
			v1 := ctxB.evalTerm(decr[0].Text)
			ex.vc.Oblige(ex.obName(tag, fmt.Sprintf("variant_decreases/back%d", nback)), "variant", Implies(e.pc, And(ILe(IntLit(0), variant0), ILt(v1, variant0))))
		}
	}
	if variant0 == nil {
		ex.vc.Oblige(ex.obName(tag, "variant_missing"), "variant", False)
	}
	return exits
}

func (ex *Exec) paramMap() map[string]Value {
	if ex.params != nil {
		return ex.params
	}
	m := map[string]Value{}
	for _, p := range ex.fn.Params {
		m[p.Name()] = ex.env[p]
	}
	ex.params = m
	return m
}

// loopModifies returns the set of allocations the loop body may write (nil = unknown: everything).
func (ex *Exec) loopModifies(li *loopInfo) map[*Alloc]bool {
	mods := map[*Alloc]bool{}
	ok := true
	var rootOf func(v ssa.Value, depth int) []Value
	rootOf = func(v ssa.Value, depth int) []Value {
		if depth > 20 {
			ok = false
			return nil
		}
		switch x := v.(type) {
		case *ssa.FieldAddr:
			return rootOf(x.X, depth+1)
		case *ssa.IndexAddr:
			return rootOf(x.X, depth+1)
		case *ssa.Slice:
			return rootOf(x.X, depth+1)
		case *ssa.ChangeType:
			return rootOf(x.X, depth+1)
		case *ssa.Phi:
			var r []Value
			for _, e := range x.Edges {
				r = append(r, rootOf(e, depth+1)...)
			}
			return r
		}
		if val, present := ex.env[v]; present {
			return []Value{val}
		}
		if g, isG := v.(*ssa.Global); isG {
			return []Value{&PtrV{A: ex.vc.Globals[g]}}
		}
		ok = false
		return nil
	}
	mark := func(v ssa.Value) {
		for _, r := range rootOf(v, 0) {
			markValue(r, mods, &ok)
		}
	}
	for b := range li.blocks {
		for _, ins := range b.Instrs {
			switch i := ins.(type) {
			case *ssa.Store:
				mark(i.Addr)
			case *ssa.Call:
				callee, isFn := i.Call.Value.(*ssa.Function)
				if !isFn {
					if bi, isB := i.Call.Value.(*ssa.Builtin); isB && (bi.Name() == "len" || bi.Name() == "cap") {
						continue
					}
					ok = false
					continue
				}
				for k, a := range i.Call.Args {
					switch a.Type().Underlying().(type) {
					case *types.Pointer, *types.Slice:
						// modular callee: only declared modifies; otherwise conservatively modified
						cfc := (*FuncContract)(nil)
						if callee.Pkg != nil && pkgKeyOf(callee) == ex.pkg {
							cfc = ex.vc.W.Contr[ex.pkg].Funcs[FuncKey(callee)]
						}
						if cfc != nil && !cfc.Pure && !(ex.fc != nil && (ex.fc.Has("inline", FuncKey(callee)) || ex.fc.Has("inline", callee.Name()))) {
							if k < len(callee.Params) && cfc.Has("modifies", callee.Params[k].Name()) {
								mark(a)
							}
							continue
						}
						mark(a)
					}
				}
			}
		}
	}
	if !ok {
		return nil
	}
	return mods
}

func markValue(v Value, mods map[*Alloc]bool, ok *bool) {
	switch x := v.(type) {
	case *PtrV:
		mods[x.A] = true
	case *SliceV:
		if x.Base != nil {
			mods[x.Base] = true
		}
	case *CondV:
		for _, al := range x.Alts {
			markValue(al.V, mods, ok)
		}
	case *NilV:
	default:
		*ok = false
	}
}
