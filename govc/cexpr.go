package main

// Evaluation of contract expressions (s-expressions) in a program context.

import (
	"fmt"
	"math/big"
	"go/types"
	"strconv"
	"strings"

	"golang.org/x/tools/go/ssa"
)

type Ctx struct {
	ex      *Exec
	fn      *ssa.Function
	fc      *FuncContract
	st      *State // current state
	old     *State // entry state
	params  map[string]Value
	results []Value
	pc      *Term
	phiOv   map[*ssa.Phi]Value
	envOv   map[ssa.Value]Value
	loop    *loopInfo
	blk     *ssa.BasicBlock // program point (for resolving local names to their reaching definition)
	bound   map[string]*Term
	extra   map[string]Value // extra named values (cut symbols etc.)
	useOld  bool
}

func (c *Ctx) fail(format string, a ...interface{}) {
	panic(unsupErr{fmt.Sprintf("contract of %s: ", c.fn.Name()) + fmt.Sprintf(format, a...)})
}

func (c *Ctx) evalBool(text string) *Term {
	sx, err := parseSX(text)
	if err != nil {
		c.fail("%v", err)
	}
	return c.evalT(sx)
}

func (c *Ctx) evalTerm(text string) *Term { return c.evalBool(text) }

func (c *Ctx) evalT(sx *SX) *Term {
	v := c.eval(sx)
	t, ok := v.(*Term)
	if !ok {
		if sv, ok := v.(*StructV); ok {
			return structTerm(sv)
		}
		c.fail("expression %s is not a term (%s)", sx, describeValue(v))
	}
	return t
}

func (c *Ctx) state() *State {
	if c.useOld {
		return c.old
	}
	return c.st
}

// lookupName resolves a program name to a value.
func (c *Ctx) lookupName(name string) (Value, bool) {
	if c.bound != nil {
		if t, ok := c.bound[name]; ok {
			return t, true
		}
	}
	if c.extra != nil {
		if v, ok := c.extra[name]; ok {
			return v, true
		}
	}
	if name == "result" {
		if len(c.results) == 1 {
			return c.results[0], true
		}
		if len(c.results) > 1 {
			return &TupleV{Elems: c.results}, true
		}
		return nil, false
	}
	if strings.HasPrefix(name, "result.") {
		k, err := strconv.Atoi(name[7:])
		if err == nil && k < len(c.results) {
			return c.results[k], true
		}
	}
	if name == "allocs" && c.state().allocs != nil {
		return c.state().allocs, true
	}
	if v, ok := c.params[name]; ok {
		return v, true
	}
	// named results
	if c.results != nil {
		rs := c.fn.Signature.Results()
		for i := 0; i < rs.Len(); i++ {
			if rs.At(i).Name() == name && i < len(c.results) {
				return c.results[i], true
			}
		}
	}
	// loop header phis by source name
	if c.loop != nil {
		for li := c.loop; li != nil; li = li.parent {
			for _, ins := range li.header.Instrs {
				phi, ok := ins.(*ssa.Phi)
				if !ok {
					break
				}
				if phi.Comment == name {
					if c.phiOv != nil {
						if v, ok := c.phiOv[phi]; ok {
							return v, true
						}
					}
					if v, ok := c.ex.env[phi]; ok {
						return v, true
					}
				}
			}
		}
	}
	// locals by debug name: prefer allocs / unique values
	if c.ex != nil && c.ex.fn == c.fn {
		var cands []ssa.Value
		seen := map[ssa.Value]bool{}
		for _, v := range c.ex.dbg[name] {
			if !seen[v] {
				seen[v] = true
				cands = append(cands, v)
			}
		}
		// allocs named by comment
		for _, b := range c.fn.Blocks {
			for _, ins := range b.Instrs {
				if a, ok := ins.(*ssa.Alloc); ok && a.Comment == name && !seen[a] {
					seen[a] = true
					cands = append(cands, a)
				}
			}
		}
		var found []Value
		for _, cv := range cands {
			if c.envOv != nil {
				if v, ok := c.envOv[cv]; ok {
					found = append(found, v)
					continue
				}
			}
			if v, ok := c.ex.env[cv]; ok {
				found = append(found, v)
			} else if k, ok := cv.(*ssa.Const); ok {
				found = append(found, c.ex.constVal(k))
			}
		}
		// an addressable local (it has a stack/heap cell): the cell is the variable
		for _, cv := range cands {
			if a, ok := cv.(*ssa.Alloc); ok && a.Comment == name {
				if v, ok := c.ex.env[cv]; ok {
					return v, true
				}
			}
		}
		if len(found) > 1 && c.blk != nil {
			// SSA reaching definition: among the definitions that dominate the program point, the one
			// deepest in the dominator tree
			var best ssa.Value
			bestDepth := -1
			for _, cv := range cands {
				ins, ok := cv.(ssa.Instruction)
				if !ok || ins.Block() == nil {
					continue
				}
				if _, has := c.ex.env[cv]; !has {
					continue
				}
				if ins.Block() == c.blk || ins.Block().Dominates(c.blk) {
					d := 0
					for b := ins.Block(); b != nil; b = b.Idom() {
						d++
					}
					if d > bestDepth {
						bestDepth, best = d, cv
					}
				}
			}
			if best != nil {
				return c.ex.env[best], true
			}
		}
		if len(found) == 1 {
			return found[0], true
		}
		if len(found) > 1 {
			// all the same?
			same := true
			for _, f := range found[1:] {
				if f != found[0] {
					same = false
				}
			}
			if same {
				return found[0], true
			}
			// prefer a pointer (alloc) if exactly one
			var ptrs []Value
			for _, f := range found {
				if _, ok := f.(*PtrV); ok {
					ptrs = append(ptrs, f)
				}
			}
			if len(ptrs) == 1 {
				return ptrs[0], true
			}
			c.fail("name %s is ambiguous (%d definitions)", name, len(found))
		}
	}
	return nil, false
}

// deref: pointers to structs/scalars are read through in the selected state.
func (c *Ctx) deref(v Value) Value {
	for {
		p, ok := v.(*PtrV)
		if !ok {
			return v
		}
		if c.ex == nil {
			c.fail("cannot dereference without executor")
		}
		v = c.ex.load(c.state(), p, True)
	}
}

func (c *Ctx) atom(a string) Value {
	switch {
	case a == "true":
		return True
	case a == "false":
		return False
	case strings.HasPrefix(a, "\""):
		return strLit(a[1 : len(a)-1])
	case strings.HasPrefix(a, "#x"):
		n, err := strconv.ParseUint(a[2:], 16, 64)
		if err != nil {
			c.fail("bad literal %s", a)
		}
		return bvlit(new(big.Int).SetUint64(n), 4*(len(a)-2))
	case strings.HasPrefix(a, "#b"):
		n, err := strconv.ParseUint(a[2:], 2, 64)
		if err != nil {
			c.fail("bad literal %s", a)
		}
		if len(a)-2 == 8 {
			return BVLit(n, 8)
		}
		return Raw(a, SUnk)
	}
	if n, err := strconv.ParseInt(a, 10, 64); err == nil {
		return IntLit(n)
	}
	if _, err := strconv.ParseFloat(a, 64); err == nil && strings.Contains(a, ".") {
		return Raw(a, SReal)
	}
	if strings.HasPrefix(a, "$") {
		if c.ex != nil {
			if v, ok := c.ex.callRes[a[1:]]; ok {
				return v
			}
		}
		c.fail("no call result %s", a)
	}
	// dotted path: name.field.field
	parts := strings.Split(a, ".")
	if v, ok := c.lookupName(a); ok {
		return c.deref(v)
	}
	if len(parts) > 1 {
		for cut := len(parts) - 1; cut >= 1; cut-- {
			base := strings.Join(parts[:cut], ".")
			if v, ok := c.lookupName(base); ok {
				cur := c.deref(v)
				for _, f := range parts[cut:] {
					cur = c.field(cur, f)
				}
				return cur
			}
		}
	}
	// SMT-level symbol (prelude constant, bound variable handled above)
	return Raw(a, preludeSort(a))
}

func (c *Ctx) field(v Value, f string) Value {
	return mapCond(v, func(v Value) Value {
		switch x := v.(type) {
		case *StructV:
			for i := 0; i < x.T.NumFields(); i++ {
				if x.T.Field(i).Name() == f {
					return c.deref(x.Fields[i])
				}
			}
			c.fail("no field %s", f)
		case *SliceV:
			switch f {
			case "len":
				return x.Len
			case "cap":
				return x.Cap
			case "off":
				return x.Off
			}
		case *Term:
			if x.Sort == SStr {
				switch f {
				case "len":
					return strLen(x)
				case "off":
					return strOff(x)
				case "arr":
					return strArr(x)
				}
			}
			if si, ok := structSorts[x.Sort]; ok {
				for i, n := range si.Fields {
					if n == f {
						return Acc(x.Sort+"."+f, si.Sorts[i], x)
					}
				}
			}
		}
		c.fail("cannot select .%s from %s", f, describeValue(v))
		return nil
	})
}

func (c *Ctx) eval(sx *SX) Value {
	if !sx.IsL {
		return c.atom(sx.Atom)
	}
	if len(sx.List) == 0 {
		c.fail("empty list")
	}
	head := sx.Head()
	args := sx.List[1:]
	switch head {
	case "old":
		saved := c.useOld
		c.useOld = true
		v := c.eval(args[0])
		c.useOld = saved
		return v
	case "outer":
		// evaluate in the context of the enclosing loop (names of the outer loop's header variables)
		if c.loop == nil || c.loop.parent == nil {
			c.fail("outer: no enclosing loop")
		}
		saved, savedOv := c.loop, c.phiOv
		c.loop, c.phiOv = c.loop.parent, nil
		v := c.eval(args[0])
		c.loop, c.phiOv = saved, savedOv
		return v
	case "hdr":
		// value of an expression in the state at the header of the enclosing cut loop
		if c.loop == nil || c.ex.hdrState[c.loop] == nil {
			c.fail("hdr outside a cut loop")
		}
		savedSt, savedOv, savedEnv := c.st, c.phiOv, c.envOv
		c.st, c.phiOv, c.envOv = c.ex.hdrState[c.loop], c.ex.hdrPhis[c.loop], map[ssa.Value]Value{}
		v := c.eval(args[0])
		c.st, c.phiOv, c.envOv = savedSt, savedOv, savedEnv
		return v
	case "forall", "exists":
		// (forall ((x S) ...) body)
		nb := map[string]*Term{}
		for k, v := range c.bound {
			nb[k] = v
		}
		var decl []string
		for _, b := range args[0].List {
			name, srt := b.List[0].Atom, b.List[1].String()
			nb[name] = intern(&Term{Op: "bvar", Name: name, Sort: smtSortName(srt)})
			decl = append(decl, "("+name+" "+srt+")")
		}
		saved := c.bound
		c.bound = nb
		body := c.evalT(args[1])
		c.bound = saved
		return App(head, SBool, Raw("("+strings.Join(decl, " ")+")", SUnk), body)
	case "!":
		// (! body :pattern (t1 t2 ...)) -- patterns evaluated too
		body := c.evalT(args[0])
		out := []*Term{body}
		for i := 1; i < len(args); i++ {
			if !args[i].IsL {
				out = append(out, Raw(args[i].Atom, SUnk))
			} else {
				var ps []*Term
				for _, p := range args[i].List {
					ps = append(ps, c.evalT(p))
				}
				out = append(out, App("", SUnk, ps...))
			}
		}
		return App("!", SBool, out...)
	case "let":
		nb := map[string]*Term{}
		for k, v := range c.bound {
			nb[k] = v
		}
		for _, b := range args[0].List {
			nb[b.List[0].Atom] = c.evalT(b.List[1])
		}
		saved := c.bound
		c.bound = nb
		body := c.eval(args[1])
		c.bound = saved
		return body
	case "forall-in":
		// (forall-in (m lo hi) body): finite conjunction
		name := args[0].List[0].Atom
		lo, _ := strconv.Atoi(args[0].List[1].Atom)
		hi, _ := strconv.Atoi(args[0].List[2].Atom)
		var cs []*Term
		for k := lo; k <= hi; k++ {
			nb := map[string]*Term{}
			for kk, v := range c.bound {
				nb[kk] = v
			}
			nb[name] = IntLit(int64(k))
			saved := c.bound
			c.bound = nb
			cs = append(cs, c.evalT(args[1]))
			c.bound = saved
		}
		return And(cs...)
	case "exists-in":
		name := args[0].List[0].Atom
		lo, _ := strconv.Atoi(args[0].List[1].Atom)
		hi, _ := strconv.Atoi(args[0].List[2].Atom)
		var cs []*Term
		for k := lo; k <= hi; k++ {
			nb := map[string]*Term{}
			for kk, v := range c.bound {
				nb[kk] = v
			}
			nb[name] = IntLit(int64(k))
			saved := c.bound
			c.bound = nb
			cs = append(cs, c.evalT(args[1]))
			c.bound = saved
		}
		return Or(cs...)
	case "len":
		v := c.eval(args[0])
		return c.field(v, "len")
	case "at":
		// (at slice k): element k of a slice in the selected state
		v := c.eval(args[0])
		k := c.evalT(args[1])
		sl, ok := v.(*SliceV)
		if !ok {
			c.fail("at: not a slice")
		}
		return c.ex.load(c.state(), &PtrV{A: sl.Base, Path: []PathElem{{Field: -1, Index: IAdd(sl.Off, k)}}}, True)
	case "byte":
		s := c.evalT(args[0])
		return strByte(s, c.evalT(args[1]))
	case "substr":
		// (substr s lo hi)
		s := c.evalT(args[0])
		lo, hi := c.evalT(args[1]), c.evalT(args[2])
		return mkStr(strArr(s), IAdd(strOff(s), lo), ISub(hi, lo))
	case "bufstr":
		// the bytes of a []byte value viewed as a string
		v := c.eval(args[0])
		sl, ok := v.(*SliceV)
		if !ok {
			c.fail("bufstr: not a slice")
		}
		sa, ok := c.state().mem[sl.Base].(*SymArrV)
		if !ok {
			c.fail("bufstr: no symbolic backing array")
		}
		return mkStr(sa.Arr, sl.Off, sl.Len)
	case "i2f":
		return mkI2F(c.evalT(args[0]))
	case "same-str":
		// structural identity: the same window of the same byte array
		a, b := c.evalT(args[0]), c.evalT(args[1])
		return And(Eq(strArr(a), strArr(b)), Eq(strOff(a), strOff(b)), Eq(strLen(a), strLen(b)))
	case "str=":
		return strEq(c.evalT(args[0]), c.evalT(args[1]))
	case "isnil":
		var v Value
		if !args[0].IsL {
			if raw, ok := c.lookupName(args[0].Atom); ok {
				v = raw
			}
		}
		if v == nil {
			v = c.eval(args[0])
		}
		switch x := v.(type) {
		case *NilV:
			return True
		case *PtrV:
			return False
		case *Term:
			if x.Sort == SErr {
				return isNilErr(x)
			}
		case *CondV:
			var res *Term
			for i := len(x.Alts) - 1; i >= 0; i-- {
				_, isN := x.Alts[i].V.(*NilV)
				if res == nil {
					res = BoolLit(isN)
				} else {
					res = Ite(x.Alts[i].C, BoolLit(isN), res)
				}
			}
			return res
		}
		c.fail("isnil of %s", describeValue(v))
	case "deref":
		var v Value
		if !args[0].IsL {
			if raw, ok := c.lookupName(args[0].Atom); ok {
				v = raw
			}
		}
		if v == nil {
			v = c.eval(args[0])
		}
		return mapCond(v, func(v Value) Value {
			if _, ok := v.(*NilV); ok {
				return zeroValue(c.fn.Signature.Results().At(0).Type().(*types.Pointer).Elem())
			}
			return c.deref(v)
		})
	}
	// generic application
	ts := make([]*Term, len(args))
	for i, a := range args {
		ts[i] = c.evalT(a)
	}
	return applyOp(head, sx.List[0], ts)
}

func smtSortName(s string) string {
	switch s {
	case "(_ BitVec 8)":
		return SBV8
	case "Int", "Bool", "Real", "Str", "Err":
		return s
	}
	return SUnk
}

// applyOp builds an application with the simplifying constructors where they exist.
func applyOp(head string, hsx *SX, ts []*Term) *Term {
	if head == "" {
		// indexed operator like ((_ extract 7 6) x) or (_ ...) forms
		return App(hsx.String(), SUnk, ts...)
	}
	switch head {
	case "and":
		return And(ts...)
	case "or":
		return Or(ts...)
	case "not":
		return Not(ts[0])
	case "=>":
		if len(ts) == 2 {
			return Implies(ts[0], ts[1])
		}
	case "ite":
		return Ite(ts[0], ts[1], ts[2])
	case "=":
		if len(ts) == 2 {
			if ts[0].Sort == SStr && ts[1].Sort == SStr {
				// structural equality of Str terms is NOT Go equality; force explicit str=
				panic(unsupErr{"use (str= a b) to compare strings in contracts"})
			}
			return Eq(ts[0], ts[1])
		}
		return App("=", SBool, ts...)
	case "distinct":
		return App("distinct", SBool, ts...)
	case "+":
		if len(ts) == 2 && isIntish(ts[0]) && isIntish(ts[1]) {
			return IAdd(asInt(ts[0]), asInt(ts[1]))
		}
		return App("+", ts[0].Sort, ts...)
	case "-":
		if len(ts) == 2 && isIntish(ts[0]) && isIntish(ts[1]) {
			return ISub(asInt(ts[0]), asInt(ts[1]))
		}
		return App("-", ts[0].Sort, ts...)
	case "*":
		return App("*", ts[0].Sort, ts...)
	case "<":
		if len(ts) == 2 && isIntish(ts[0]) && isIntish(ts[1]) {
			return ILt(asInt(ts[0]), asInt(ts[1]))
		}
		return App("<", SBool, ts...)
	case "<=":
		if len(ts) == 2 && isIntish(ts[0]) && isIntish(ts[1]) {
			return ILe(asInt(ts[0]), asInt(ts[1]))
		}
		return App("<=", SBool, ts...)
	case ">":
		if len(ts) == 2 && isIntish(ts[0]) && isIntish(ts[1]) {
			return ILt(asInt(ts[1]), asInt(ts[0]))
		}
		return App(">", SBool, ts...)
	case ">=":
		if len(ts) == 2 && isIntish(ts[0]) && isIntish(ts[1]) {
			return ILe(asInt(ts[1]), asInt(ts[0]))
		}
		return App(">=", SBool, ts...)
	case "bvand", "bvor", "bvxor", "bvadd", "bvsub", "bvshl", "bvlshr", "bvmul":
		if len(ts) == 2 && isBVSort(ts[0].Sort) && ts[0].Sort == ts[1].Sort {
			return BVBin(head, ts[0], ts[1])
		}
	case "bvult", "bvule", "bvslt", "bvsle":
		if len(ts) == 2 && isBVSort(ts[0].Sort) && ts[0].Sort == ts[1].Sort {
			return BVCmp(head, ts[0], ts[1])
		}
		return App(head, SBool, ts...)
	case "select":
		return Select(ts[0], ts[1], elemSortOf(ts[0].Sort))
	case "store":
		return Store(ts[0], ts[1], ts[2])
	case "fp.eq", "fp.lt", "fp.leq", "fp.gt", "fp.geq", "fp.isNaN", "fp.isInfinite", "fp.isZero", "fp.isNegative", "fp.isPositive", "xor":
		return App(head, SBool, ts...)
	case "mk-str":
		return mkStr(ts[0], ts[1], ts[2])
	}
	if _, ok := accTab[head]; ok && len(ts) == 1 {
		return Acc(head, preludeSort(head), ts[0])
	}
	return App(head, preludeSort(head), ts...)
}

func elemSortOf(arrSort string) string {
	switch arrSort {
	case SArrB:
		return SBV8
	case SArrS:
		return SStr
	case SArrI:
		return SInt
	case SArrO:
		return SBool
	}
	return SUnk
}

func isIntish(t *Term) bool { return t.Sort == SInt }
func asInt(t *Term) *Term   { return t }

// result sorts of prelude functions / constants (filled by the prelude loader)
var preludeSorts = map[string]string{}

func preludeSort(name string) string {
	if s, ok := preludeSorts[name]; ok {
		return s
	}
	return SUnk
}
