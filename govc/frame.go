package main

// C14: frame and ownership obligations generated from the SSA of every function of the four
// packages.  They are decided by a syntactic def-chain analysis (no solver): each store must go to an
// object the function owns (allocated in it) or to a parameter object that its contract lists under
// "modifies"; no package variable is written outside init; buffers do not escape; no concurrency
// primitives are used; the value types contain no pointers.

import (
	"fmt"
	"go/types"
	"sort"
	"strings"

	"golang.org/x/tools/go/ssa"
	"golang.org/x/tools/go/ssa/ssautil"
)

type rootKind int

const (
	rootLocal rootKind = iota // allocated in this function
	rootParam                 // reachable from a parameter
	rootGlobal                // a package variable itself
	rootViaGlobal             // an object reached through a pointer loaded from a package variable
	rootUnknown
)

type rootInfo struct {
	kind  rootKind
	param *ssa.Parameter
	glob  *ssa.Global
	desc  string
}

func rootsOf(v ssa.Value, depth int, seen map[ssa.Value]bool) []rootInfo {
	if depth > 40 || seen[v] {
		return nil
	}
	seen[v] = true
	switch x := v.(type) {
	case *ssa.Alloc:
		return []rootInfo{{kind: rootLocal, desc: "local " + x.Comment}}
	case *ssa.MakeSlice:
		return []rootInfo{{kind: rootLocal, desc: "make"}}
	case *ssa.Parameter:
		return []rootInfo{{kind: rootParam, param: x, desc: "parameter " + x.Name()}}
	case *ssa.Global:
		return []rootInfo{{kind: rootGlobal, glob: x, desc: "package variable " + x.Name()}}
	case *ssa.FieldAddr:
		return rootsOf(x.X, depth+1, seen)
	case *ssa.IndexAddr:
		return rootsOf(x.X, depth+1, seen)
	case *ssa.Slice:
		return rootsOf(x.X, depth+1, seen)
	case *ssa.ChangeType:
		return rootsOf(x.X, depth+1, seen)
	case *ssa.Convert:
		return rootsOf(x.X, depth+1, seen)
	case *ssa.TypeAssert:
		return rootsOf(x.X, depth+1, seen)
	case *ssa.MakeInterface:
		return rootsOf(x.X, depth+1, seen)
	case *ssa.Phi:
		var r []rootInfo
		for _, e := range x.Edges {
			r = append(r, rootsOf(e, depth+1, seen)...)
		}
		return r
	case *ssa.UnOp:
		// a pointer / slice loaded from memory
		rs := rootsOf(x.X, depth+1, seen)
		var out []rootInfo
		for _, r := range rs {
			switch r.kind {
			case rootGlobal, rootViaGlobal:
				out = append(out, rootInfo{kind: rootViaGlobal, glob: r.glob, desc: "object reached through " + r.desc})
			case rootLocal:
				// value stored in a local cell: follow the stores into that cell
				if a, ok := x.X.(*ssa.Alloc); ok {
					for _, ref := range *a.Referrers() {
						if st, ok := ref.(*ssa.Store); ok && st.Addr == a {
							out = append(out, rootsOf(st.Val, depth+1, seen)...)
						}
					}
					if len(out) == 0 {
						out = append(out, r)
					}
				} else {
					out = append(out, r)
				}
			default:
				out = append(out, r)
			}
		}
		return out
	case *ssa.Call:
		if cal := x.Call.StaticCallee(); cal != nil {
			switch cal.String() {
			case "(*sync.Pool).Get":
				return []rootInfo{{kind: rootLocal, desc: "pool item (owned between Get and Put)"}}
			}
		}
		if b, ok := x.Call.Value.(*ssa.Builtin); ok && b.Name() == "append" {
			return rootsOf(x.Call.Args[0], depth+1, seen)
		}
		return []rootInfo{{kind: rootUnknown, desc: "result of call " + x.String()}}
	case *ssa.Extract:
		return rootsOf(x.Tuple, depth+1, seen)
	case *ssa.Const:
		return nil
	}
	return []rootInfo{{kind: rootUnknown, desc: fmt.Sprintf("%T", v)}}
}

func (cc *CheckCtx) frameObligations() {
	w := cc.W
	add := func(name string, ok bool, detail string) {
		r := ObResult{Name: name, Kind: "frame", Solver: "govc-frame-analysis(SSA def chains)", Status: "proved"}
		if !ok {
			r.Status = "refuted"
			r.Output = detail
		}
		cc.Results = append(cc.Results, r)
	}
	var fns []*ssa.Function
	for fn := range ssautil.AllFunctions(w.Prog) {
		if fn.Pkg == nil || fn.Synthetic != "" || w.Pkgs[pkgKeyOf(fn)] == nil || fn.Name() == "init" {
			continue
		}
		fns = append(fns, fn)
	}
	sort.Slice(fns, func(i, j int) bool { return fns[i].String() < fns[j].String() })
	for _, fn := range fns {
		pkg := pkgKeyOf(fn)
		key := FuncKey(fn)
		cc.Funcs[pkg+"."+key] = true
		base := fmt.Sprintf("gocvss%s.%s/frame/", pkg, key)
		var fc *FuncContract
		if pc := w.Contr[pkg]; pc != nil {
			fc = pc.Funcs[key]
		}
		modifies := map[string]bool{}
		for _, d := range fc.Of("modifies") {
			for _, f := range strings.Fields(d.Text) {
				modifies[f] = true
			}
		}
		var badStore, badGlobal, conc, escape, nondet []string
		for _, b := range fn.Blocks {
			for _, ins := range b.Instrs {
				pos := w.Fset.Position(ins.Pos())
				at := fmt.Sprintf("%s:%d", pos.Filename[strings.LastIndex(pos.Filename, "/")+1:], pos.Line)
				switch i := ins.(type) {
				case *ssa.Store:
					for _, r := range rootsOf(i.Addr, 0, map[ssa.Value]bool{}) {
						switch r.kind {
						case rootGlobal, rootViaGlobal:
							badGlobal = append(badGlobal, at+": store to "+r.desc)
						case rootParam:
							if !modifies[r.param.Name()] {
								badStore = append(badStore, at+": store through "+r.desc+" which the contract does not list under modifies")
							}
						case rootUnknown:
							badStore = append(badStore, at+": store to an object of unknown origin ("+r.desc+")")
						}
					}
					// a pointer / slice / buffer stored into something that outlives the call
					if isRefType(i.Val.Type()) {
						for _, r := range rootsOf(i.Addr, 0, map[ssa.Value]bool{}) {
							if r.kind == rootLocal || (r.kind == rootParam && modifies[r.param.Name()]) {
								continue
							}
							escape = append(escape, at+": a reference is stored into "+r.desc)
						}
					}
				case *ssa.Range:
					if _, isMap := i.X.Type().Underlying().(*types.Map); isMap {
						nondet = append(nondet, at+": range over a map (iteration order is randomised)")
					}
				case *ssa.Go:
					conc = append(conc, at+": go statement")
				case *ssa.Send, *ssa.Select, *ssa.MakeChan:
					conc = append(conc, at+": channel operation")
				case *ssa.Call:
					cal := i.Call.StaticCallee()
					if cal != nil {
						pp := ""
						if cal.Pkg != nil {
							pp = cal.Pkg.Pkg.Path()
						} else if cal.Object() != nil && cal.Object().Pkg() != nil {
							pp = cal.Object().Pkg().Path()
						}
						switch pp {
						case "math/rand", "math/rand/v2", "crypto/rand", "time", "os", "runtime", "runtime/debug":
							nondet = append(nondet, at+": call of "+cal.String()+" (result depends on the environment, not on the arguments)")
						}
					}
					// package state handed to a function outside the four packages (sync/atomic, a
					// mutex, a map helper, ...) may be written there: only the scratch pool is exempt
					if cal == nil || cal.Pkg == nil || w.Pkgs[pkgKeyOf(cal)] == nil {
						name := "a dynamic call"
						suspect := true
						args := i.Call.Args
						if b, isB := i.Call.Value.(*ssa.Builtin); isB {
							name = "builtin " + b.Name()
							switch b.Name() {
							case "copy", "clear", "delete":
								args = args[:1] // only the destination is written
							case "append":
								args = args[:1] // append writes into the backing array of its first argument when capacity allows
							default:
								suspect = false // len, cap, append (handled as a store root), min, max, print
							}
						} else if cal != nil {
							name = cal.String()
							pp := ""
							if cal.Pkg != nil {
								pp = cal.Pkg.Pkg.Path()
							} else if cal.Object() != nil && cal.Object().Pkg() != nil {
								pp = cal.Object().Pkg().Path() // instantiated generics (atomic.Pointer[T])
							}
							switch pp {
							case "sync", "sync/atomic", "reflect", "runtime", "unsafe", "maps", "":
								suspect = name != "(*sync.Pool).Get" && name != "(*sync.Pool).Put"
							default:
								suspect = false // strings, bytes, slices, sort, math, fmt, errors: read their arguments
							}
						}
						if suspect {
							for _, a := range args {
								if !isRefType(a.Type()) {
									continue
								}
								for _, r := range rootsOf(a, 0, map[ssa.Value]bool{}) {
									if r.kind == rootGlobal || r.kind == rootViaGlobal {
										badGlobal = append(badGlobal, at+": "+r.desc+" is passed to "+name+", which may write it")
									}
								}
							}
						}
					}
					if cal == nil {
						continue
					}
					// arguments that the callee modifies must be objects this function may modify
					if cal.Pkg != nil && w.Pkgs[pkgKeyOf(cal)] != nil {
						var cfc *FuncContract
						if pc := w.Contr[pkgKeyOf(cal)]; pc != nil {
							cfc = pc.Funcs[FuncKey(cal)]
						}
						for k, a := range i.Call.Args {
							if k >= len(cal.Params) || !cfc.Has("modifies", cal.Params[k].Name()) {
								continue
							}
							for _, r := range rootsOf(a, 0, map[ssa.Value]bool{}) {
								switch r.kind {
								case rootGlobal, rootViaGlobal:
									badGlobal = append(badGlobal, at+": "+cal.Name()+" modifies "+r.desc)
								case rootParam:
									if !modifies[r.param.Name()] {
										badStore = append(badStore, at+": "+cal.Name()+" modifies "+r.desc+" which the contract does not list under modifies")
									}
								case rootUnknown:
									badStore = append(badStore, at+": "+cal.Name()+" modifies an object of unknown origin")
								}
							}
						}
					}
				}
			}
		}
		add(base+"assigns_only_owned_or_declared_objects", len(badStore) == 0, strings.Join(badStore, "; "))
		add(base+"no_write_to_package_state", len(badGlobal) == 0, strings.Join(badGlobal, "; "))
		add(base+"no_reference_retained", len(escape) == 0, strings.Join(escape, "; "))
		add(base+"no_concurrency_primitives", len(conc) == 0, strings.Join(conc, "; "))
		add(base+"result_determined_by_arguments", len(nondet) == 0, strings.Join(nondet, "; "))
	}
	// package-level facts
	for _, pkg := range allPkgs {
		p := w.Pkgs[pkg]
		T := typeOf(pkg)
		if tn := p.Type(T); tn != nil {
			st, _ := tn.Type().Underlying().(*types.Struct)
			ok := st != nil
			for i := 0; ok && i < st.NumFields(); i++ {
				if b, isB := st.Field(i).Type().Underlying().(*types.Basic); !isB || b.Kind() != types.Uint8 {
					ok = false
				}
			}
			add(fmt.Sprintf("gocvss%s/frame/value_type_%s_holds_no_pointers", pkg, T), ok, "a field is not a uint8")
		}
		// mutable package state: only sync.Pool values and exported error sentinels may exist besides
		// never-written tables
		var names []string
		for n, m := range p.Members {
			if g, ok := m.(*ssa.Global); ok && g.Object() != nil {
				et := g.Type().(*types.Pointer).Elem()
				if sortOfType(et) == SErr || strings.HasSuffix(et.String(), "sync.Pool") {
					continue
				}
				written := false
				for fn := range ssautil.AllFunctions(w.Prog) {
					if fn.Pkg != p || fn.Name() == "init" {
						continue
					}
					for _, b := range fn.Blocks {
						for _, ins := range b.Instrs {
							if st, ok := ins.(*ssa.Store); ok {
								for _, r := range rootsOf(st.Addr, 0, map[ssa.Value]bool{}) {
									if (r.kind == rootGlobal || r.kind == rootViaGlobal) && r.glob == g {
										written = true
									}
								}
							}
						}
					}
				}
				if written {
					names = append(names, n)
				}
			}
		}
		sort.Strings(names)
		add(fmt.Sprintf("gocvss%s/frame/tables_immutable", pkg), len(names) == 0, "written outside init: "+strings.Join(names, ", "))
	}
	// Vector(): the buffer is fresh and nothing writes to it after it has been reinterpreted as string
	for _, pkg := range allPkgs {
		fn := w.Func(pkg, "("+typeOf(pkg)+").Vector")
		if fn == nil {
			continue
		}
		ok := true
		detail := ""
		seenConv := false
		for _, b := range fn.Blocks {
			for _, ins := range b.Instrs {
				if c, isC := ins.(*ssa.Convert); isC {
					if bt, isB := c.Type().Underlying().(*types.Basic); isB && bt.Kind() == types.UnsafePointer {
						seenConv = true
						continue
					}
				}
				if seenConv {
					switch ins.(type) {
					case *ssa.Store, *ssa.Call:
						ok = false
						detail = "an instruction after the unsafe conversion may still write to the buffer: " + ins.String()
					}
				}
			}
		}
		if !seenConv {
			// no unsafe conversion: a plain string(b) copy is fine as well
			detail = ""
		}
		add(fmt.Sprintf("gocvss%s.(%s).Vector/frame/buffer_not_written_after_string_view", pkg, typeOf(pkg)), ok, detail)
	}
}

// poolUsers lists the functions of the four packages that call (*sync.Pool).Get.
func (cc *CheckCtx) poolUsers() []string {
	w := cc.W
	var out []string
	for fn := range ssautil.AllFunctions(w.Prog) {
		if fn.Pkg == nil || fn.Synthetic != "" || w.Pkgs[pkgKeyOf(fn)] == nil {
			continue
		}
		uses := false
		for _, b := range fn.Blocks {
			for _, ins := range b.Instrs {
				if c, ok := ins.(*ssa.Call); ok {
					if cal := c.Call.StaticCallee(); cal != nil && cal.String() == "(*sync.Pool).Get" {
						uses = true
					}
				}
			}
		}
		if uses {
			out = append(out, pkgKeyOf(fn)+"."+FuncKey(fn))
		}
	}
	sort.Strings(out)
	return out
}

func isRefType(t types.Type) bool {
	switch u := t.Underlying().(type) {
	case *types.Pointer, *types.Slice, *types.Map, *types.Chan, *types.Signature:
		return true
	case *types.Interface:
		return sortOfType(t) != SErr // error values are immutable after creation
	case *types.Basic:
		return u.Kind() == types.UnsafePointer
	}
	return false
}
