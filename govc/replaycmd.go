package main

import (
	"encoding/json"
	"fmt"
	"os"
	"os/exec"
	"path/filepath"
	"strings"
)

// cmdReplay re-runs the Go test stored in a replay file against the current tree of /repo and reports
// whether the recorded behaviour is reproduced (exit 1) or not (exit 0).
func cmdReplay(path string) int {
	data, err := os.ReadFile(path)
	if err != nil {
		fmt.Fprintln(os.Stderr, err)
		return 2
	}
	var rep struct {
		Property   string      `json:"property"`
		Obligation string      `json:"obligation"`
		Function   string      `json:"function"`
		Output     string      `json:"solver_output"`
		Replay     *ReplayInfo `json:"replay"`
	}
	if err := json.Unmarshal(data, &rep); err != nil {
		fmt.Fprintln(os.Stderr, err)
		return 2
	}
	fmt.Printf("property %s, failed obligation %s (function %s)\n", rep.Property, rep.Obligation, rep.Function)
	if rep.Replay == nil || rep.Replay.TestSource == "" {
		fmt.Println("no failing input was found by the solver for this obligation; solver output:")
		fmt.Println(rep.Output)
		return 1
	}
	scratch, err := makeScratch()
	if err != nil {
		fmt.Fprintln(os.Stderr, err)
		return 2
	}
	defer os.RemoveAll(scratch)
	pkg := strings.SplitN(rep.Function, ".", 2)[0]
	tf := filepath.Join(scratch, "replay_test.go")
	os.WriteFile(tf, []byte(rep.Replay.TestSource), 0o644)
	ov, _ := json.Marshal(map[string]interface{}{"Replace": map[string]string{filepath.Join(scratch, "repo", pkg, "zz_govc_replay_test.go"): tf}})
	ovf := tf + ".overlay.json"
	os.WriteFile(ovf, ov, 0o644)
	cmd := exec.Command("go", "test", "-overlay", ovf, "-vet=off", "-count=1", "-v", "-timeout", "60s", "-run", "^TestGovcReplay$", "./"+pkg+"/")
	cmd.Dir = filepath.Join(scratch, "repo")
	cmd.Env = goEnv()
	out, _ := cmd.CombinedOutput()
	fmt.Printf("inputs: %v\n", rep.Replay.Inputs)
	fmt.Println(string(out))
	line := ""
	if i := strings.Index(string(out), "GOVC-REPLAY "); i >= 0 {
		line = strings.SplitN(string(out)[i+12:], "\n", 2)[0]
	}
	var now map[string]interface{}
	json.Unmarshal([]byte(line), &now)
	a, _ := json.Marshal(now)
	b, _ := json.Marshal(rep.Replay.Observed)
	if string(a) == string(b) && rep.Replay.Confirmed {
		fmt.Println("REPRODUCED: the current tree shows the recorded violating behaviour; failed clauses:")
		for _, c := range rep.Replay.FailedClauses {
			fmt.Println("  ", c)
		}
		if rep.Replay.Panicked {
			fmt.Println("  ", rep.Replay.Note)
		}
		return 1
	}
	fmt.Println("not reproduced on the current tree (recorded:", string(b), ")")
	return 0
}
