package main

// Property drivers: which functions, obligations and lemmas decide each property.

import (
	"runtime/debug"
	"encoding/json"
	"fmt"
	"os"
	"path/filepath"
	"regexp"
	"sort"
	"strings"
	"time"
)

type Task struct {
	Pkg    string
	Func   string
	Match  string // regexp on obligation names that count for the property ("" = every obligation of the run)
	Opts   RunOpts
	Tier   string // "" = both tiers, "thorough" = thorough only
	Timeout int
	NoFP   bool // leave obligations with floating point to the case-split stages
}

type Lemma struct {
	Name   string
	Pkg    string
	Script string // declarations + (assert (not goal)); prelude is prepended
	Quant  bool
	Tier   string
	// Timeout in seconds (0: 20 quick / 120 thorough); Bare: the script is self-contained (no prelude)
	Timeout int
	Bare    bool
}

type CheckCtx struct {
	W        *World
	Prop     string
	Tier     string
	Seed     int64
	Results  []ObResult
	Funcs    map[string]bool
	Inlined  map[string]bool
	Modular  map[string]bool
	Extern   map[string]bool
	Notes    []string
	Samples  []interface{}
	Extra    map[string]interface{}
	ToolErr  []string
	Warn     []string
	Instances int
	Exhaustive bool
	Subset     bool // some stage of this run enumerated a stated subset of its domain
	TracesValidated int
	fpGoals map[string]bool // case-split goals: covered by at least one stage?
	calleePosts map[string]map[string]bool // callee -> ensures labels assumed at call sites during this check
	calleeAlloc map[string]bool            // callee -> some assumed clause speaks about allocs
}

type PropDef struct {
	ID          string
	Tasks       func(tier string) []Task
	Lemmas      func(w *World, tier string) []Lemma
	Custom      func(cc *CheckCtx)
	Trusted     []string
	Assumptions []string
}

var allPkgs = []string{"20", "30", "31", "40"}

func typeOf(pkg string) string { return "CVSS" + pkg }
func recvOf(pkg string) string { return "cvss" + pkg }

var trustedCommon = []string{
	"T1 go/packages+go/types+go/ssa (x/tools v0.29.0) lower the source faithfully; govc's SSA-to-SMT translation",
	"T2 SMT solvers z3 4.8.12, z3 5.1.0, cvc5 1.0.3 (raced; any error output before the status line is rejected)",
	"T7 values of the CVSSxx types are produced only through the exported API; sentinel error variables are not reassigned",
	"T8 the specification vocabulary in /verif/spec (metric tables, equations) renders the FIRST documents faithfully",
}

func setGetTasks(match string) func(string) []Task {
	return func(tier string) []Task {
		var ts []Task
		for _, p := range allPkgs {
			ts = append(ts, Task{Pkg: p, Func: "(*" + typeOf(p) + ").Set", Match: match})
		}
		return ts
	}
}

func viewLemmas(w *World, tier string) []Lemma {
	var ls []Lemma
	for _, p := range allPkgs {
		T := typeOf(p)
		n := w.Contr[p].Repr.NBytes
		zero := "(mk-" + T + strings.Repeat(" #x00", n) + ")"
		ls = append(ls, Lemma{Name: fmt.Sprintf("gocvss%s/lemma/view_injective", p), Pkg: p, Script: fmt.Sprintf(
			"(declare-const a %s)\n(declare-const b %s)\n(assert (wf%s a))\n(assert (wf%s b))\n(assert (sameview%s a b))\n(assert (not (= a b)))\n", T, T, p, p, p)})
		ls = append(ls, Lemma{Name: fmt.Sprintf("gocvss%s/lemma/zero_value_wf", p), Pkg: p, Script: fmt.Sprintf("(assert (not (wf%s %s)))\n", p, zero)})
	}
	return ls
}

var props = map[string]*PropDef{}

var reachablePkgs = map[string][]string{
	"C03": {"30", "31"}, "C04": {"40"}, "C05": {"20"}, "C10": {"30", "31", "40"}, "C11": allPkgs, "C12": allPkgs,
}

func init() {
	props["C07"] = &PropDef{
		ID: "C07",
		Tasks: func(tier string) []Task {
			var ts []Task
			for _, p := range allPkgs {
				ts = append(ts, Task{Pkg: p, Func: "(*" + typeOf(p) + ").Set", Match: `/post/(ok_iff_legal|sets_metric|frame_other_metrics|fail_unchanged|wf_preserved)$|/repr/|/safety/`})
				ts = append(ts, Task{Pkg: p, Func: "(" + typeOf(p) + ").Get", Match: `/post/known_metric_value$|/safety/`})
			}
			return ts
		},
		Lemmas:  viewLemmas,
		Trusted: trustedCommon,
	}
	props["C09"] = &PropDef{
		ID: "C09",
		Tasks: func(tier string) []Task {
			var ts []Task
			for _, p := range allPkgs {
				ts = append(ts, Task{Pkg: p, Func: "(*" + typeOf(p) + ").Set", Match: `/post/(ok_iff_legal|wf_preserved|err_unknown_metric|err_illegal_value)$|/repr/|/safety/`})
				ts = append(ts, Task{Pkg: p, Func: "(" + typeOf(p) + ").Get", Match: ``})
				ts = append(ts, Task{Pkg: p, Func: "(" + typeOf(p) + ").get", Match: ``})
				ts = append(ts, Task{Pkg: p, Func: "validate", Match: ``})
				// "every scoring function returns without panicking" on well-formed objects
				if p != "40" {
					for _, f := range []string{"BaseScore", "TemporalScore", "EnvironmentalScore", "Impact", "Exploitability"} {
						ts = append(ts, Task{Pkg: p, Func: "(" + typeOf(p) + ")." + f, Match: `/safety/`, NoFP: true})
					}
				}
			}
			return ts
		},
		Custom: func(cc *CheckCtx) {
			// v4.0 Score: safety (lookupMV's panic arms, index bounds), callee preconditions and cuts for
			// each of the 270 MacroVectors; macroVector's contract; the split is exhaustive
			cc.runScore40(`^$`, true)
			cc.runTask(Task{Pkg: "40", Func: "(CVSS40).macroVector", Match: `/post/eq\d$|/safety/`})
			for _, l := range score40Lemmas(cc.W, cc.Tier) {
				cc.runLemma(l)
			}
		},
		Lemmas:  viewLemmas,
		Trusted: trustedCommon,
	}
	props["C15"] = &PropDef{
		ID: "C15",
		Tasks: func(tier string) []Task {
			var ts []Task
			for _, p := range []string{"30", "31", "40"} {
				ts = append(ts, Task{Pkg: p, Func: "Rating", Match: ``})
			}
			return ts
		},
		Trusted:     append(append([]string{}, trustedCommon...), "T3 IEEE-754 binary64 comparison semantics of the Go compiler (no arithmetic is involved)"),
		Assumptions: []string{"NaN is excluded by the precondition (left unspecified by the property)", "the three packages are proved against the one shared spec function ratingClass, which is the 'behaves identically' clause"},
	}
	props["C16"] = &PropDef{
		ID: "C16",
		Tasks: func(tier string) []Task {
			return []Task{{Pkg: "40", Func: "(CVSS40).Nomenclature", Match: ``}}
		},
		Trusted: trustedCommon,
	}
}

// ---------- running a check ----------

type KnownFinding struct {
	Property   string `json:"property"`
	Obligation string `json:"obligation"` // regexp on obligation name
	What       string `json:"what"`
	Status     string `json:"status"` // "open" or "fixed"
	Commit     string `json:"commit,omitempty"`
}

func loadKnownFindings() []KnownFinding {
	var kf struct {
		Findings []KnownFinding `json:"findings"`
	}
	data, err := os.ReadFile("/verif/known_findings.json")
	if err != nil {
		return nil
	}
	json.Unmarshal(data, &kf)
	return kf.Findings
}

func (cc *CheckCtx) runTask(t Task) {
	if t.Tier == "thorough" && cc.Tier != "thorough" {
		return
	}
	if t.Opts.TrackAllocs && t.Opts.AllocFilter == nil {
		sites, _ := cc.Extra["allocation_sites_vs_escape_analysis"].(map[string]string)
		if sites == nil {
			sites = map[string]string{}
			cc.Extra["allocation_sites_vs_escape_analysis"] = sites
		}
		t.Opts.AllocFilter = cc.W.allocFilterFor(t.Pkg, sites)
	}
	fr := cc.W.RunFunc(t.Pkg, t.Func, t.Opts)
	key := t.Pkg + "." + t.Func
	cc.Funcs[key] = true
	if fr.Err != "" {
		cc.funcErr(t.Pkg, t.Func, fr.Err)
		return
	}
	cc.noteWarn(fr)
	for k := range fr.VC.Inlined {
		cc.Inlined[k] = true
	}
	for k := range fr.VC.Modular {
		cc.Modular[k] = true
	}
	for k := range fr.VC.Extern {
		cc.Extern[k] = true
	}
	var re *regexp.Regexp
	if t.Match != "" {
		re = regexp.MustCompile(t.Match)
	}
	to := t.Timeout
	if to == 0 {
		to = 20
		if cc.Tier == "thorough" {
			to = 120
		}
	}
	// obligations whose statement is assumed by later obligations (lemmas, invariants, callee
	// preconditions, variants) are always discharged; Match only selects among the others
	res := Discharge(fr, to, func(o *Oblig) bool {
		switch o.Kind {
		case "lemma", "inv", "pre", "variant", "cut", "repr":
			return true
		}
		if t.NoFP && hasFP(o.Cond) {
			return false
		}
		return re == nil || re.MatchString(o.Name)
	})
	// vacuity guard: the assumptions of the run must be satisfiable
	cc.vacuity(fr)
	for i := range res {
		if res[i].Status == "refuted" {
			cc.replay(fr, &res[i])
		}
	}
	cc.Results = append(cc.Results, res...)
}

func (cc *CheckCtx) vacuity(fr *FuncRun) {
	if fr.VC == nil || len(fr.VC.Assumes) == 0 {
		return
	}
	termMu.Lock()
	// only the function's own preconditions (assumptions made before the first obligation)
	n := len(fr.VC.Assumes)
	if len(fr.VC.Obligs) > 0 {
		n = fr.VC.Obligs[0].NAssume
	}
	script := ScriptFor(fr.Prelude, fr.VC.Assumes[:n], False, hasQuant(fr.VC.Assumes[:n]...))
	termMu.Unlock()
	sr := Solve(script, filepath.Join(smtOutDir, slug(fr.Pkg+"."+fr.Key)), "vacuity", 10, nil)
	if sr.Status == "unsat" {
		cc.ToolErr = append(cc.ToolErr, fmt.Sprintf("vacuous precondition in %s.%s", fr.Pkg, fr.Key))
	}
}

func (cc *CheckCtx) runLemma(l Lemma) {
	if l.Tier == "thorough" && cc.Tier != "thorough" {
		return
	}
	prelude, _, err := cc.W.PreludeFor(l.Pkg)
	if err != nil {
		cc.ToolErr = append(cc.ToolErr, err.Error())
		return
	}
	head := scriptHead
	if l.Quant {
		head += "(set-option :auto_config false)\n(set-option :smt.mbqi false)\n"
	}
	script := head + filterPrelude(prelude, l.Script) + l.Script + "(check-sat)\n(get-model)\n"
	if l.Bare {
		script = head + l.Script + "(check-sat)\n(get-model)\n"
	}
	to := 20
	if cc.Tier == "thorough" {
		to = 120
	}
	if l.Timeout > to {
		to = l.Timeout
	}
	t0 := time.Now()
	sr := Solve(script, filepath.Join(smtOutDir, "lemmas"), slug(l.Name), to, nil)
	r := ObResult{Name: l.Name, Kind: "lemma", Solver: sr.Solver, Seconds: time.Since(t0).Seconds(), Pkg: l.Pkg, File: filepath.Join(smtOutDir, "lemmas", slug(l.Name)+".smt2")}
	switch sr.Status {
	case "unsat":
		r.Status = "proved"
	case "sat":
		r.Status = "refuted"
		r.Model = sr.Output
	default:
		r.Status = "undischarged"
		r.Output = sr.Output
	}
	cc.Results = append(cc.Results, r)
}

func runCheck(id, tier string, seed int64) int {
	t0 := time.Now()
	pd := props[id]
	if pd == nil {
		fmt.Fprintf(os.Stderr, "govc: no check for property %s\n", id)
		return 2
	}
	// solver scripts of this check: one directory per property, emptied at the start of every run
	if d := os.Getenv("GOVC_OUT"); d != "" {
		smtOutDir = filepath.Join(d, "smt", id)
	} else {
		smtOutDir = filepath.Join("/verif/out/smt", id)
	}
	os.RemoveAll(smtOutDir)
	if tier != "thorough" {
		stageBudget = 5 * time.Minute
	}
	w, err := LoadWorld()
	defer w.Close()
	if err != nil {
		fmt.Fprintln(os.Stderr, "govc: load:", err)
		return 2
	}
	cc := &CheckCtx{W: w, Prop: id, Tier: tier, Seed: seed, Funcs: map[string]bool{}, Inlined: map[string]bool{}, Modular: map[string]bool{}, Extern: map[string]bool{}, Extra: map[string]interface{}{}}
	if pd.Tasks != nil {
		for _, t := range pd.Tasks(tier) {
			t := t
			cc.guard("gocvss"+t.Pkg+"."+t.Func, func() { cc.runTask(t) })
		}
	}
	if pd.Lemmas != nil {
		for _, l := range pd.Lemmas(w, tier) {
			cc.runLemma(l)
		}
	}
	if pd.Custom != nil {
		cc.guard(id+"/driver", func() { pd.Custom(cc) })
	}
	// properties quantified over "every reachable object" assume well-formedness: the facts that make
	// every reachable object well formed (zero value, Set preserves wf; ParseVector builds its result
	// through Set) are discharged in the same check
	if pk := reachablePkgs[id]; pk != nil {
		for _, p := range pk {
			p := p
			cc.guard("gocvss"+p+".Set", func() {
				before := len(cc.Results)
				cc.runTask(Task{Pkg: p, Func: "(*" + typeOf(p) + ").Set", Match: `/post/wf_preserved$|/repr/`})
				cc.dedupe(before)
			})
		}
		for _, l := range viewLemmas(w, tier) {
			if strings.HasSuffix(l.Name, "/zero_value_wf") {
				for _, p := range pk {
					if l.Pkg == p {
						before := len(cc.Results)
						cc.runLemma(l)
						cc.dedupe(before)
					}
				}
			}
		}
	}
	cc.guard(id+"/callee-contracts", func() { cc.closeCallees() })
	for g, covered := range cc.fpGoals {
		if !covered {
			// a floating-point goal that every stage of this run had to skip (its terms keep symbols no
			// stage substitutes, e.g. the result of a call the stages do not know): undischarged
			name := g
			if i := strings.Index(g, ":"); i >= 0 {
				name = g[i+1:]
			}
			cc.Results = append(cc.Results, ObResult{Name: name + "[no stage closes this goal]", Kind: "case-split", Status: "undischarged", Solver: "govc",
				Output: "on the unchanged tree this goal is closed by a case-split stage; with the current body its terms keep free symbols under every stage's substitution"})
		}
	}
	return cc.finish(pd, time.Since(t0).Seconds())
}

// funcErr records that a function under contract could not be brought through the verifier.  When
// the reason lies in the code or in the fit between code and contract (a construct outside the
// supported subset, a contract expression naming a local that no longer exists, a loop without an
// invariant), the function's obligations, all discharged on the unchanged tree, can no longer be
// discharged: that is reported as one undischarged obligation of the function, carrying the reason.
// Anything else (function missing, prelude failure) is a tool error.
func (cc *CheckCtx) funcErr(pkg, fn, err string) {
	if !strings.Contains(err, "outside-subset:") {
		cc.ToolErr = append(cc.ToolErr, pkg+"."+fn+": "+err)
		return
	}
	name := fmt.Sprintf("gocvss%s.%s/contract/body_within_verified_subset", pkg, fn)
	for _, r := range cc.Results {
		if r.Name == name {
			return
		}
	}
	cc.Results = append(cc.Results, ObResult{Name: name, Kind: "subset", Pkg: pkg, Func: fn, Status: "undischarged", Solver: "govc",
		Output: "the obligations of this function were generated and discharged on the unchanged tree; with the current body they cannot be generated: " + err})
}

// guard: a panic of the verifier while it processes the current code (the drivers of the case splits
// expect the call structure the contracts describe) means the obligations that were discharged on the
// unchanged tree can no longer be generated; reported like funcErr.
func (cc *CheckCtx) guard(what string, f func()) {
	defer func() {
		if r := recover(); r != nil {
			if _, isUnsup := r.(unsupErr); !isUnsup {
				fmt.Fprintf(os.Stderr, "govc: verifier panic while processing %s: %v\n%s\n", what, r, debug.Stack())
			}
			termMuUnlockIfHeld()
			cc.Results = append(cc.Results, ObResult{Name: what + "/contract/body_within_verified_subset", Kind: "subset", Status: "undischarged", Solver: "govc",
				Output: fmt.Sprintf("the obligations were generated and discharged on the unchanged tree; with the current code the verifier could not generate them: %v", r)})
		}
	}()
	f()
}

func (cc *CheckCtx) noteWarn(fr *FuncRun) {
	if fr.VC != nil {
		for k, ls := range fr.VC.ModularPosts {
			if cc.calleePosts == nil {
				cc.calleePosts = map[string]map[string]bool{}
				cc.calleeAlloc = map[string]bool{}
			}
			if cc.calleePosts[k] == nil {
				cc.calleePosts[k] = map[string]bool{}
			}
			for l := range ls {
				cc.calleePosts[k][l] = true
				if strings.Contains(l, "alloc") {
					cc.calleeAlloc[k] = true
				}
			}
		}
	}
	for _, w := range fr.Warn {
		dup := false
		for _, x := range cc.Warn {
			dup = dup || x == w
		}
		if !dup {
			cc.Warn = append(cc.Warn, w)
		}
	}
}

// closeCallees: a caller is verified against the contracts of its callees, so every ensures clause
// that was assumed at a call site during this check is discharged on the callee's body in the same
// check (transitively).  Clauses without floating point go through the symbolic route; clauses of the
// scoring functions go through their case-split stages.
func (cc *CheckCtx) closeCallees() {
	done := map[string]bool{}
	proved := func(name string) bool {
		for _, r := range cc.Results {
			if r.Name == name && r.Status == "proved" {
				return true
			}
		}
		return false
	}
	var closed []string
	for round := 0; round < 6; round++ {
		var todo []string
		for k, ls := range cc.calleePosts {
			for l := range ls {
				if !done[k+"|"+l] {
					todo = append(todo, k)
					break
				}
			}
		}
		if len(todo) == 0 {
			break
		}
		sort.Strings(todo)
		for _, k := range todo {
			pkg, fn := k[:2], k[3:]
			var labels []string
			for l := range cc.calleePosts[k] {
				if !done[k+"|"+l] {
					done[k+"|"+l] = true
					if !proved(fmt.Sprintf("gocvss%s.%s/post/%s", pkg, fn, l)) {
						labels = append(labels, regexp.QuoteMeta(l))
					}
				}
			}
			if len(labels) == 0 {
				continue
			}
			sort.Strings(labels)
			match := `/post/(` + strings.Join(labels, "|") + `)(/|$)`
			closed = append(closed, k+": "+strings.Join(labels, ","))
			// scoring functions: floating-point clauses through the stages
			var stages []stage
			switch pkg {
			case "20":
				stages = v2Stages(match)
			case "30", "31":
				stages = v3Stages(pkg, match)
			}
			ranStage := false
			for _, s := range stages {
				if s.Func == fn && (s.Tier != "thorough" || cc.Tier == "thorough") {
					before := len(cc.Results)
					cc.runStage(s)
					cc.dedupe(before)
					ranStage = true
				}
			}
			if ranStage {
				continue
			}
			before := len(cc.Results)
			cc.runTask(Task{Pkg: pkg, Func: fn, Match: match, Opts: RunOpts{TrackAllocs: cc.calleeAlloc[k]}, NoFP: true})
			cc.dedupe(before)
		}
	}
	if len(closed) > 0 {
		sort.Strings(closed)
		cc.Extra["callee_clauses_discharged_in_this_check"] = closed
	}
}

// dedupe drops results appended since 'from' whose obligation was already attempted in this check.
func (cc *CheckCtx) dedupe(from int) {
	seen := map[string]bool{}
	for _, r := range cc.Results[:from] {
		seen[r.Name] = true
	}
	out := cc.Results[:from]
	for _, r := range cc.Results[from:] {
		if seen[r.Name] {
			continue
		}
		out = append(out, r)
	}
	cc.Results = out
}

func (cc *CheckCtx) finish(pd *PropDef, wall float64) int {
	known := loadKnownFindings()
	total, discharged, violations, kfCount := 0, 0, 0, 0
	evDir, repDir := "/verif/evidence", "/verif/replays"
	if d := os.Getenv("GOVC_OUT"); d != "" {
		evDir, repDir = filepath.Join(d, "evidence"), filepath.Join(d, "replays")
	}
	backends := map[string]int{}
	solverSec := 0.0
	var vioLines, kfLines []string
	seenKF := map[string]bool{}
	os.MkdirAll(filepath.Join(repDir, cc.Prop), 0o755)
	sort.SliceStable(cc.Results, func(i, j int) bool { return cc.Results[i].Name < cc.Results[j].Name })
	for _, r := range cc.Results {
		total++
		solverSec += r.Seconds
		if r.Status == "proved" {
			discharged++
			backends[r.Solver]++
			continue
		}
		// known finding?
		isKF := false
		for _, k := range known {
			if k.Property == cc.Prop && k.Status == "open" && regexp.MustCompile(k.Obligation).MatchString(r.Name) {
				isKF = true
				if !seenKF[k.Obligation] {
					seenKF[k.Obligation] = true
					kfLines = append(kfLines, fmt.Sprintf("KNOWN-FINDING: property=%s %s", cc.Prop, k.What))
				}
			}
		}
		if isKF {
			total-- // known findings are reported separately, not counted as obligations to discharge
			kfCount++
			continue
		}
		violations++
		path := filepath.Join(repDir, cc.Prop, slug(r.Name)+".json")
		rep := map[string]interface{}{"property": cc.Prop, "obligation": r.Name, "status": r.Status, "smt_file": r.File, "solver": r.Solver, "solver_output": truncate(r.Output+r.Model, 20000), "function": r.Pkg + "." + r.Func}
		suffix := ""
		if r.Replay != nil {
			rep["replay"] = r.Replay
		}
		if r.Replay == nil || !r.Replay.Confirmed {
			suffix = " no-failing-input-found"
		}
		data, _ := json.MarshalIndent(rep, "", " ")
		os.WriteFile(path, data, 0o644)
		vioLines = append(vioLines, fmt.Sprintf("VIOLATION property=%s replay=%s%s", cc.Prop, path, suffix))
	}
	// evidence
	var fns, inl, mod, ext []string
	for k := range cc.Funcs {
		fns = append(fns, k)
	}
	for k := range cc.Inlined {
		inl = append(inl, k)
	}
	for k := range cc.Modular {
		mod = append(mod, k)
	}
	for k := range cc.Extern {
		ext = append(ext, k)
	}
	sort.Strings(fns)
	sort.Strings(inl)
	sort.Strings(mod)
	sort.Strings(ext)
	samples := cc.Samples
	for i, r := range cc.Results {
		if len(samples) >= 6 {
			break
		}
		if r.Solver != "govc-simplifier" && (i%7 == int(cc.Seed%7+7)%7 || len(cc.Results) < 12) {
			samples = append(samples, map[string]interface{}{"obligation": r.Name, "status": r.Status, "solver": r.Solver, "seconds": r.Seconds, "smt_file": r.File})
		}
	}
	if len(samples) == 0 && len(cc.Results) > 0 {
		r := cc.Results[0]
		samples = append(samples, map[string]interface{}{"obligation": r.Name, "status": r.Status, "solver": r.Solver})
	}
	assumptions := append([]string{}, pd.Assumptions...)
	for _, k := range inl {
		assumptions = append(assumptions, "inlined helper (verified through its body at each call site, not through a contract): "+k)
	}
	for _, k := range ext {
		assumptions = append(assumptions, "external function under an assumed built-in contract: "+k)
	}
	for _, k := range mod {
		assumptions = append(assumptions, "callee used through its contract (proved separately under its own property checks): "+k)
	}
	assumptions = append(assumptions, cc.Notes...)
	cov := map[string]interface{}{
		"obligations":              total,
		"discharged":               discharged,
		"checker_cmd":              fmt.Sprintf("/verif/bin/govc check %s --tier %s", cc.Prop, cc.Tier),
		"trusted_base":             pd.Trusted,
		"samples":                  samples,
		"functions_under_contract": fns,
		"backends":                 backends,
		"solver_seconds":           solverSec,
		"known_findings_reported":  len(kfLines),
		"known_finding_obligations": kfCount,
		"undischarged_or_refuted":  violations,
	}
	if cc.Instances > 0 {
		cov["case_instances"] = cc.Instances
		cov["exhaustive"] = cc.Exhaustive && !cc.Subset
	}
	if cc.TracesValidated > 0 {
		cov["traces_validated_against_impl"] = cc.TracesValidated
	}
	for k, v := range cc.Extra {
		cov[k] = v
	}
	ev := map[string]interface{}{
		"property_id": cc.Prop,
		"tier":        cc.Tier,
		"seed":        cc.Seed,
		"level":       "proof",
		"coverage":    cov,
		"assumptions": assumptions,
		"wall_s":      wall,
		"violations":  violations,
	}
	if len(cc.ToolErr) > 0 {
		ev["tool_errors"] = cc.ToolErr
	}
	if len(cc.Warn) > 0 {
		ev["stale_contract_hints"] = cc.Warn
	}
	os.MkdirAll(evDir, 0o755)
	data, _ := json.MarshalIndent(ev, "", " ")
	os.WriteFile(filepath.Join(evDir, cc.Prop+".json"), data, 0o644)
	for _, l := range kfLines {
		fmt.Println(l)
	}
	for _, l := range vioLines {
		fmt.Println(l)
	}
	fmt.Printf("govc: property %s tier %s: %d obligations, %d discharged, %d violations, %d known findings, %.1fs\n", cc.Prop, cc.Tier, total, discharged, violations, len(kfLines), wall)
	for _, w := range cc.Warn {
		fmt.Fprintln(os.Stderr, "govc: warning:", w)
	}
	if len(cc.ToolErr) > 0 {
		for _, e := range cc.ToolErr {
			fmt.Fprintln(os.Stderr, "govc: tool error:", e)
		}
		if violations > 0 {
			return 1
		}
		return 2
	}
	if total == 0 {
		fmt.Fprintln(os.Stderr, "govc: no obligations generated (vacuous check)")
		return 2
	}
	if violations > 0 {
		return 1
	}
	return 0
}

func parserTasks(matchParse string, extra bool) func(string) []Task {
	return func(tier string) []Task {
		var ts []Task
		for _, p := range allPkgs {
			ts = append(ts, Task{Pkg: p, Func: "ParseVector", Match: matchParse, Timeout: 60})
			if !extra {
				continue
			}
			switch p {
			case "20":
				ts = append(ts, Task{Pkg: p, Func: "split", Timeout: 60})
			case "30", "31":
				ts = append(ts, Task{Pkg: p, Func: "splitCouple", Timeout: 60})
				ts = append(ts, Task{Pkg: p, Func: "(*kvm).Set", Timeout: 60})
			}
			ts = append(ts, Task{Pkg: p, Func: "(*" + typeOf(p) + ").Set", Match: `/post/(ok_iff_legal|wf_preserved|vals_array|error_value)$`})
		}
		return ts
	}
}

func headerLemmas(w *World, tier string) []Lemma {
	// the accepted prefixes of the four parsers are pairwise incompatible
	pre := map[string]string{"20": "AV:", "30": "CVSS:3.0/", "31": "CVSS:3.1/", "40": "CVSS:4.0"}
	var ls []Lemma
	has := func(p string) string {
		h := pre[p]
		cs := []string{fmt.Sprintf("(>= (s.len v) %d)", len(h))}
		for i := 0; i < len(h); i++ {
			cs = append(cs, fmt.Sprintf("(= (select (s.arr v) (+ (s.off v) %d)) #x%02x)", i, h[i]))
		}
		return "(and " + strings.Join(cs, " ") + ")"
	}
	for i, a := range allPkgs {
		for _, b := range allPkgs[i+1:] {
			ls = append(ls, Lemma{Name: fmt.Sprintf("C13/lemma/prefixes_disjoint/%s_%s", a, b), Pkg: a,
				Script: "(declare-const v Str)\n(assert " + has(a) + ")\n(assert " + has(b) + ")\n"})
		}
	}
	// each package's accept_implies_prefix clause uses exactly these prefixes
	for _, p := range []string{"30", "31", "40"} {
		if w.Specs[p] != nil && w.Specs[p].Header != pre[p] {
			ls = append(ls, Lemma{Name: "C13/lemma/spec_header_matches/" + p, Pkg: p, Script: "(assert true)\n"})
		}
	}
	return ls
}

func init() {
	props["C01"] = &PropDef{
		ID:      "C01",
		Tasks:   parserTasks(`/safety/|/loop\d|/lemma/|/call/|/pool/|/frame/|/post/(accept_iff_grammar|reject_nil)/|/post/accept_object/`, true),
		Trusted: append(append([]string{}, trustedCommon...), "T5 assumed contracts of strings.HasPrefix, strings.Cut (cut at the first ':'), (*sync.Pool).Get/Put (a 14-slot []string with arbitrary contents, exclusively owned until Put)"),
		Assumptions: []string{
			"the grammar is given as a reference fold over the '/'-separated elements (parseResNN in /verif/spec/vNN.smt2): a recursive specification function instantiated through its defining equation (assume_def), not a declarative grammar; it decides the first defect from left to right",
			"string lengths are below 2^62 (T4)",
		},
	}
	props["C06"] = &PropDef{
		ID: "C06",
		Tasks: func(tier string) []Task {
			ts := parserTasks(`/post/accept_object/|/loop\d|/lemma/`, false)(tier)
			for _, p := range allPkgs {
				ts = append(ts, Task{Pkg: p, Func: "(" + typeOf(p) + ").Get", Match: `/post/(known_metric_value|nonempty)$`})
				ts = append(ts, Task{Pkg: p, Func: "(*" + typeOf(p) + ").Set", Match: `/post/(vals_array|sets_metric)$`})
			}
			return ts
		},
		Trusted: append(append([]string{}, trustedCommon...), "T5 assumed contracts of strings.HasPrefix, strings.Cut, sync.Pool"),
		Assumptions: []string{"'the value written for m in s' is the p.vals component of the reference fold: the code of the value of the (unique) element whose abbreviation is m, 0 (X / ND) when absent"},
	}
	props["C13"] = &PropDef{
		ID: "C13",
		Tasks: func(tier string) []Task {
			ts := parserTasks(`/post/accept_implies_prefix/|/loop\d|/lemma/`, false)(tier)
			for _, p := range allPkgs {
				ts = append(ts, Task{Pkg: p, Func: "(" + typeOf(p) + ").Vector", Opts: RunOpts{TrackAllocs: true, AppendMustFit: true}, Match: `/post/canonical|/alloc/`, Timeout: 60})
				ts = append(ts, Task{Pkg: p, Func: "lenVec", Match: `/post/exact`, Timeout: 60})
			}
			return ts
		},
		Lemmas: func(w *World, tier string) []Lemma {
			ls := headerLemmas(w, tier)
			pre := map[string]string{"20": "AV:", "30": "CVSS:3.0/", "31": "CVSS:3.1/", "40": "CVSS:4.0"}
			for _, p := range allPkgs {
				h := pre[p]
				cs := []string{fmt.Sprintf("(>= (s.len S) %d)", len(h))}
				for i := 0; i < len(h); i++ {
					cs = append(cs, fmt.Sprintf("(= (select (s.arr S) (+ (s.off S) %d)) #x%02x)", i, h[i]))
				}
				ls = append(ls, Lemma{Name: "C13/lemma/canonical_form_starts_with_own_prefix/" + p, Pkg: p,
					Script: fmt.Sprintf("(declare-const c %s)\n(declare-const S Str)\n(assert (wf%s c))\n(assert (<= 0 (s.len S)))\n(assert (isCanon%s S c))\n(assert (not (and %s)))\n", typeOf(p), p, p, strings.Join(cs, " "))})
			}
			return ls
		},
		Trusted: append(append([]string{}, trustedCommon...), "T5 assumed contract of strings.HasPrefix"),
		Assumptions: []string{
			"Vector() side: the serialised string is the canonical form (Vector's contract), which starts with the package's own prefix (lemma), hence no other parser accepts it; that its own parser accepts it is the C02 obligation set",
		},
	}
	props["C18"] = &PropDef{
		ID: "C18",
		Tasks: func(tier string) []Task {
			ts := parserTasks(`/post/spec_error[a-z_]*/|/loop\d|/lemma/`, false)(tier)
			for _, p := range allPkgs {
				ts = append(ts, Task{Pkg: p, Func: "(*" + typeOf(p) + ").Set", Match: `/post/(err_unknown_metric|err_illegal_value|error_value)$`})
				ts = append(ts, Task{Pkg: p, Func: "(" + typeOf(p) + ").Get", Match: `/post/unknown_metric$`})
				if p == "30" || p == "31" {
					ts = append(ts, Task{Pkg: p, Func: "(*kvm).Set", Match: `/post/`})
				}
			}
			return ts
		},
		Trusted: append(append([]string{}, trustedCommon...), "T5 assumed contracts of strings.HasPrefix, strings.Cut, sync.Pool"),
		Assumptions: []string{
			"error values are compared with the reference fold, which reports the FIRST defect from left to right; for vectors with several defects this is stronger than the property (which only speaks about single-defect vectors)",
			"v4.0 'CVSS:4.0' followed by something other than '/' is specified as ErrInvalidMetricValue, as the code answers (region left open by the property)",
		},
	}
}

func init() {
	allocOpts := RunOpts{TrackAllocs: true, AppendMustFit: true}
	props["C17"] = &PropDef{
		ID: "C17",
		Tasks: func(tier string) []Task {
			var ts []Task
			for _, p := range allPkgs {
				T := typeOf(p)
				ts = append(ts, Task{Pkg: p, Func: "(" + T + ").Vector", Opts: allocOpts, Match: `/post/one_allocation|/alloc/|/lemma/|/call/|/safety/`, Timeout: 60})
				ts = append(ts, Task{Pkg: p, Func: "lenVec", Opts: allocOpts, Match: `/post/`, Timeout: 60})
				ts = append(ts, Task{Pkg: p, Func: "ParseVector", Opts: RunOpts{TrackAllocs: true}, Match: `/post/allocation_budget|/loop\d|/lemma/|/call/|/pool/`, Timeout: 60})
				ts = append(ts, Task{Pkg: p, Func: "(" + T + ").Get", Opts: RunOpts{TrackAllocs: true}, Match: `/post/no_allocation`})
				ts = append(ts, Task{Pkg: p, Func: "(*" + T + ").Set", Opts: RunOpts{TrackAllocs: true}, Match: `/post/no_allocation`})
				for _, f := range []string{"BaseScore", "TemporalScore", "EnvironmentalScore", "Impact", "Exploitability"} {
					if p == "40" {
						continue
					}
					ts = append(ts, Task{Pkg: p, Func: "(" + T + ")." + f, Opts: RunOpts{TrackAllocs: true, NoSafety: true}, Match: `/post/no_allocation`})
				}
				if p != "20" {
					ts = append(ts, Task{Pkg: p, Func: "Rating", Opts: RunOpts{TrackAllocs: true}, Match: `/post/no_allocation`})
				}
				if p == "20" {
					ts = append(ts, Task{Pkg: p, Func: "split", Opts: RunOpts{TrackAllocs: true}, Match: `/post/no_allocation`})
				}
				if p == "30" || p == "31" {
					ts = append(ts, Task{Pkg: p, Func: "splitCouple", Opts: RunOpts{TrackAllocs: true}, Match: `/post/no_allocation`})
					ts = append(ts, Task{Pkg: p, Func: "(*kvm).Set", Opts: RunOpts{TrackAllocs: true}, Match: `/post/no_allocation`})
				}
			}
			ts = append(ts, Task{Pkg: "40", Func: "(CVSS40).Nomenclature", Opts: RunOpts{TrackAllocs: true}, Match: `/post/no_allocation`})
			return ts
		},
		Custom: func(cc *CheckCtx) {
			// v4.0 Score: no allocation site on any path, for each of the 270 MacroVector cases
			filter := cc.W.allocFilterFor("40", nil)
			for _, e := range cc.W.validMacroVectors() {
				var rv []Value
				for _, x := range e {
					rv = append(rv, IntLit(int64(x)))
				}
				fr := cc.W.RunFunc("40", "(*CVSS40).Score", RunOpts{TrackAllocs: true, AllocFilter: filter, NoSafety: true, ConcreteRet: map[string][]Value{"(CVSS40).macroVector": rv}})
				cc.Funcs["40.(*CVSS40).Score"] = true
				if fr.Err != "" {
					cc.funcErr("40", "(*CVSS40).Score", fr.Err)
					return
				}
				for _, o := range fr.VC.Obligs {
					if strings.HasSuffix(o.Name, "/post/no_allocation") {
						oo := *o
						oo.Name = o.Name + "[mv=" + mvLabel(e) + "]"
						cc.Results = append(cc.Results, dischargeOne(fr, &oo, 30))
					}
				}
			}
			cc.runTask(Task{Pkg: "40", Func: "(CVSS40).macroVector", Opts: RunOpts{TrackAllocs: true}, Match: `/post/no_allocation`})
		},
		Trusted: append(append([]string{}, trustedCommon...),
			"T9 cost model of the ghost allocation counter: make/new/composite literals that the compiler's escape analysis (go build -gcflags=-m, re-run on the scratch copy every time) reports as heap allocations, append beyond capacity, boxing of non-pointer values; runtime-internal allocations and a cold sync.Pool are outside the model",
			"T6 the []byte header is reinterpreted as a string header without copying"),
		Assumptions: []string{
			"steady state: (*sync.Pool).Get returns a recycled 14-slot slice (no allocation)",
			"the measured quantity of the property (testing.AllocsPerRun) is not executed by this check; the ghost counter is proved under the cost model",
		},
	}
}

func init() {
	props["C14"] = &PropDef{
		ID: "C14",
		Tasks: func(tier string) []Task {
			var ts []Task
			// history independence: v2.0 ParseVector is verified for arbitrary stale contents of the
			// pooled slice; the item is owned from Get to the deferred Put on every path
			ts = append(ts, Task{Pkg: "20", Func: "ParseVector", Match: `/pool/|/safety/|/post/(accept_iff_grammar|accept_object|reject_nil)/`, Timeout: 60})
			ts = append(ts, Task{Pkg: "20", Func: "split", Timeout: 60})
			// Set: the new receiver value and the result are functions of the old value and the arguments
			for _, p := range allPkgs {
				ts = append(ts, Task{Pkg: p, Func: "(*" + typeOf(p) + ").Set", Match: `/post/(vals_array|fail_unchanged|error_value|ok_iff_legal)$`})
			}
			return ts
		},
		Custom: func(cc *CheckCtx) {
			cc.frameObligations()
			// every function that takes something out of a sync.Pool is verified with the pool item
			// entering with arbitrary contents (ownership ghost state, arbitrary stale values): on the
			// unchanged tree that is v2.0 ParseVector (task above); a new pool user is run here
			for _, k := range cc.poolUsers() {
				if k == "20.ParseVector" {
					continue
				}
				pkg, fn := k[:2], k[3:]
				cc.guard("gocvss"+pkg+"."+fn, func() { cc.runTask(Task{Pkg: pkg, Func: fn, Match: `/pool/|/safety/|/post/`, Timeout: 60}) })
			}
		},
		Trusted: append(append([]string{}, trustedCommon...),
			"T5 sync.Pool contract: Get returns New's result or a value previously Put, handed to one caller at a time",
			"T10 Go memory model: a function whose writes go only to objects it owns (or that its caller handed to it exclusively) and whose reads go to arguments, the receiver and never-written package data cannot participate in a data race"),
		Assumptions: []string{
			"NOT covered by this family of technique: no interleaving is executed or model-checked and the race detector is not used; what is proved are the frame / ownership conditions from which race freedom follows under T10",
			"history independence follows from the contracts: every verified postcondition determines the result (and for Set the new receiver) as a function of the arguments and the receiver only; the single piece of shared mutable state, splitPool, enters v2.0 ParseVector with arbitrary contents",
			"exported error sentinels are package variables that clients could reassign (T7)",
		},
	}
}
