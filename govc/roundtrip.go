package main

// C02 / C08: specification-level lemmas connecting the canonical form written by Vector() with the
// reference fold of ParseVector.  All scripts are over spec functions only (no code); positions of
// the segments are opaque constants P_k linked by P_{k+1} = P_k + seglen_k(c), so that every step
// reasons about one segment.

import (
	"fmt"
	"strings"
)

type rtGen struct {
	V      string
	T      string
	spec   *Spec
	n      int
	H      int
	sepAt0 bool // segment 0 starts with '/'
}

// decls declares the object, the string and the listed segment positions.  Only the facts about the
// listed positions are included (adjacent ones are linked by P_{k+1} = P_k + seglen_k(c); all of them
// lie between the header and the end of the string: the bounds are lemmas of their own, see below).
func (g *rtGen) decls(ks ...int) string {
	var sb strings.Builder
	fmt.Fprintf(&sb, "(declare-const c %s)\n(declare-const S Str)\n", g.T)
	fmt.Fprintf(&sb, "(assert (wf%s c))\n(assert (and (<= 0 (s.len S)) (<= 0 (s.off S)) (<= %d (s.len S))))\n", g.V, g.H)
	in := map[int]bool{}
	for _, k := range ks {
		in[k] = true
	}
	for k := 0; k <= g.n; k++ {
		if !in[k] {
			continue
		}
		fmt.Fprintf(&sb, "(declare-const P%d Int)\n", k)
		fmt.Fprintf(&sb, "(assert (and (<= %d P%d) (<= P%d (s.len S))))\n", g.H, k, k)
		if k == 0 {
			fmt.Fprintf(&sb, "(assert (= P0 %d))\n", g.H)
		}
		if k == g.n {
			fmt.Fprintf(&sb, "(assert (= (s.len S) P%d))\n", g.n)
		}
	}
	for k := 0; k < g.n; k++ {
		if in[k] && in[k+1] {
			fmt.Fprintf(&sb, "(assert (= P%d (+ P%d (seglen%s_%d c))))\n", k+1, k, g.V, k)
		}
	}
	for i := 0; i < g.H; i++ {
		fmt.Fprintf(&sb, "(assert (= (select (s.arr S) (+ (s.off S) %d)) #x%02x))\n", i, g.spec.Header[i])
	}
	if g.H == 0 {
		sb.WriteString("(define-fun V () Str S)\n")
	} else {
		fmt.Fprintf(&sb, "(define-fun V () Str (substr S %d (s.len S)))\n", g.H)
	}
	return sb.String()
}

// declsNoChain declares all positions without the equations between them (used where only equalities
// between terms mentioning them matter).
func (g *rtGen) declsNoChain() string {
	var all []int
	for k := 0; k <= g.n; k++ {
		all = append(all, k)
	}
	s := g.decls(all...)
	var out []string
	for _, ln := range strings.Split(s, "\n") {
		if strings.Contains(ln, "(seglen") {
			continue
		}
		out = append(out, ln)
	}
	return strings.Join(out, "\n")
}

// boundLemmas: every position lies between the header and the end of the string.
func (g *rtGen) boundLemmas(name func(string) string) []Lemma {
	var ls []Lemma
	hdr := func() string {
		return fmt.Sprintf("(declare-const c %s)\n(declare-const S Str)\n(assert (wf%s c))\n", g.T, g.V)
	}
	for k := 0; k < g.n; k++ {
		// lower bound forwards, upper bound backwards: both follow from seglen >= 0
		sc := hdr() + fmt.Sprintf("(assert (not (>= (seglen%s_%d c) 0)))\n", g.V, k)
		ls = append(ls, Lemma{Name: name(fmt.Sprintf("segment_length_nonnegative_%d", k)), Pkg: g.V, Script: sc})
	}
	return ls
}

func (g *rtGen) segHyp(k int) string {
	return fmt.Sprintf("(assert (segokAt%s_%d S c P%d))\n", g.V, k, k)
}

// start of the element of metric k inside V (fold position)
func (g *rtGen) spos(k int) string {
	switch g.V {
	case "40":
		return fmt.Sprintf("(- P%d %d)", k, g.H) // points at the '/'
	default:
		if k == 0 {
			return fmt.Sprintf("(- P0 %d)", g.H)
		}
		return fmt.Sprintf("(+ (- P%d %d) 1)", k, g.H)
	}
}

// stateStep declares the fold state before metric k as opaque constants and defines the state after it.
func (g *rtGen) stateStep(k int) string {
	var sb strings.Builder
	fmt.Fprintf(&sb, "(declare-const vals_%d (Array Int (_ BitVec 8)))\n", k)
	if g.V == "30" || g.V == "31" {
		fmt.Fprintf(&sb, "(declare-const seen_%d (Array Int Bool))\n", k)
	} else {
		fmt.Fprintf(&sb, "(declare-const pos_%d Int)\n", k)
	}
	if g.V == "20" {
		fmt.Fprintf(&sb, "(declare-const cnt_%d Int)\n", k)
	}
	if k < g.n {
		m := g.spec.Metrics[k].Name
		fmt.Fprintf(&sb, "(define-fun vals_%d () (Array Int (_ BitVec 8)) (ite (present%s_%d c) (store vals_%d %d (f%s_%s c)) vals_%d))\n", k+1, g.V, k, k, k, g.V, m, k)
		if g.V == "30" || g.V == "31" {
			fmt.Fprintf(&sb, "(define-fun seen_%d () (Array Int Bool) (ite (present%s_%d c) (store seen_%d %d true) seen_%d))\n", k+1, g.V, k, k, k, k)
		} else {
			fmt.Fprintf(&sb, "(define-fun pos_%d () Int (ite (present%s_%d c) %d pos_%d))\n", k+1, g.V, k, k+1, k)
		}
		if g.V == "20" {
			fmt.Fprintf(&sb, "(define-fun cnt_%d () Int (+ cnt_%d (ite (present%s_%d c) 1 0)))\n", k+1, k, g.V, k)
		}
	}
	return sb.String()
}

// inv(k, st): the invariant of the fold state before metric k, over the state named with suffix st
func (g *rtGen) inv(k int, suffix string) string { return g.invParts(k, suffix, true) }

// invStep: the part of the invariant a fold step needs (order position / not yet seen)
func (g *rtGen) invStep(k int, suffix string) string { return g.invParts(k, suffix, false) }

func (g *rtGen) invParts(k int, suffix string, full bool) string {
	var cs []string
	vals := "vals_" + suffix
	if full {
		cs = append(cs, fmt.Sprintf("(forall ((j Int)) (! (=> (>= j %d) (= (select %s j) #x00)) :pattern ((select %s j))))", k, vals, vals))
		for m := 0; m < k; m++ {
			cs = append(cs, fmt.Sprintf("(= (select %s %d) (field%s c %d))", vals, m, g.V, m))
		}
	}
	switch g.V {
	case "30", "31":
		seen := "seen_" + suffix
		if full {
			cs = append(cs, fmt.Sprintf("(forall ((j Int)) (! (=> (>= j %d) (not (select %s j))) :pattern ((select %s j))))", k, seen, seen))
			for m := 0; m < k; m++ {
				if g.spec.Metrics[m].Mandatory {
					cs = append(cs, fmt.Sprintf("(select %s %d)", seen, m))
				}
			}
		} else {
			cs = append(cs, fmt.Sprintf("(not (select %s %d))", seen, k))
		}
	case "40":
		pos := "pos_" + suffix
		cs = append(cs, fmt.Sprintf("(=> (<= %d NMAND40) (= %s %d))", k, pos, k), fmt.Sprintf("(=> (>= %d NMAND40) (and (<= NMAND40 %s) (<= %s %d)))", k, pos, pos, k))
	case "20":
		pos, cnt := "pos_"+suffix, "cnt_"+suffix
		// pos = index after the last written metric (0, 6, 9 or k); cnt = number of written metrics
		b1, b2 := len(g.spec.Groups["base"]), len(g.spec.Groups["base"])+len(g.spec.Groups["temporal"])
		var pc string
		switch {
		case k <= b1:
			pc = fmt.Sprintf("(and (= %s %d) (= %s %d))", pos, k, cnt, k)
		case k <= b2:
			pc = fmt.Sprintf("(ite (present20_%d c) (and (= %s %d) (= %s %d)) (and (= %s %d) (= %s %d)))", b1, pos, k, cnt, k, pos, b1, cnt, b1)
		default:
			pc = fmt.Sprintf("(ite (present20_%d c) (and (= %s %d) (= %s (ite (present20_%d c) %d %d))) (ite (present20_%d c) (and (= %s %d) (= %s %d)) (and (= %s %d) (= %s %d))))",
				b2, pos, k, cnt, b1, k, k-(b2-b1), b1, pos, b2, cnt, b2, pos, b1, cnt, b1)
		}
		cs = append(cs, pc)
	}
	return "(and " + strings.Join(cs, " ") + ")"
}

func (g *rtGen) foldAt(k int) string {
	switch g.V {
	case "30", "31":
		return fmt.Sprintf("(fold%s V %s seen_%d vals_%d)", g.V, g.spos(k), k, k)
	case "40":
		return fmt.Sprintf("(fold40 V %s pos_%d vals_%d)", g.spos(k), k, k)
	default:
		return fmt.Sprintf("(fold20 V %s cnt_%d pos_%d vals_%d)", g.spos(k), k, k, k)
	}
}

func (g *rtGen) foldDefAt(k int) string {
	switch g.V {
	case "30", "31":
		return fmt.Sprintf("(fold%s_def V %s seen_%d vals_%d)", g.V, g.spos(k), k, k)
	case "40":
		return fmt.Sprintf("(fold40_def V %s pos_%d vals_%d)", g.spos(k), k, k)
	default:
		return fmt.Sprintf("(fold20_def V %s cnt_%d pos_%d vals_%d)", g.spos(k), k, k, k)
	}
}

// separator fact: the byte at P_k (if inside the string) is '/'
func (g *rtGen) sepFact(k int) string {
	return fmt.Sprintf("(=> (< P%d (s.len S)) (= (select (s.arr S) (+ (s.off S) P%d)) #x2f))", k, k)
}

func (g *rtGen) lemmas() []Lemma {
	var ls []Lemma
	name := func(s string) string { return fmt.Sprintf("gocvss%s/roundtrip/%s", g.V, s) }
	first := 1
	if g.sepAt0 {
		first = 0
	}
	ls = append(ls, g.boundLemmas(name)...)
	// 1. separator chain, from the end
	for k := g.n - 1; k >= first; k-- {
		var sb strings.Builder
		sb.WriteString(g.decls(k, k+1))
		sb.WriteString(g.segHyp(k))
		if k+1 < g.n {
			fmt.Fprintf(&sb, "(assert %s)\n", g.sepFact(k+1))
		}
		fmt.Fprintf(&sb, "(assert (not %s))\n", g.sepFact(k))
		ls = append(ls, Lemma{Name: name(fmt.Sprintf("separator_follows_segment_%d", k)), Pkg: g.V, Script: sb.String()})
	}
	// 2. the invariant of the fold state is established and carried from metric to metric
	{
		var sb strings.Builder
		sb.WriteString(g.decls())
		sb.WriteString("(define-fun vals_0 () (Array Int (_ BitVec 8)) noVals)\n")
		if g.V == "30" || g.V == "31" {
			sb.WriteString("(define-fun seen_0 () (Array Int Bool) noneSeen)\n")
		} else {
			sb.WriteString("(define-fun pos_0 () Int 0)\n")
		}
		if g.V == "20" {
			sb.WriteString("(define-fun cnt_0 () Int 0)\n")
		}
		fmt.Fprintf(&sb, "(assert (not %s))\n", g.inv(0, "0"))
		ls = append(ls, Lemma{Name: name("state_invariant_initial"), Pkg: g.V, Script: sb.String(), Quant: true})
	}
	for k := 0; k < g.n; k++ {
		var sb strings.Builder
		sb.WriteString(g.decls())
		sb.WriteString(g.stateStep(k))
		fmt.Fprintf(&sb, "(assert %s)\n(assert (not %s))\n", g.inv(k, fmt.Sprint(k)), g.inv(k+1, fmt.Sprint(k+1)))
		ls = append(ls, Lemma{Name: name(fmt.Sprintf("state_invariant_step_%d", k)), Pkg: g.V, Script: sb.String(), Quant: true})
	}
	// 3. fold steps
	for k := 0; k < g.n; k++ {
		var sb strings.Builder
		sb.WriteString(g.decls(k, k+1))
		sb.WriteString(g.stateStep(k))
		sb.WriteString(g.segHyp(k))
		if k+1 < g.n {
			fmt.Fprintf(&sb, "(assert %s)\n", g.sepFact(k+1))
		}
		fmt.Fprintf(&sb, "(assert %s)\n", g.invStep(k, fmt.Sprint(k)))
		fmt.Fprintf(&sb, "(assert (=> (present%s_%d c) %s))\n", g.V, k, g.foldDefAt(k))
		fmt.Fprintf(&sb, "(assert (not (= %s %s)))\n", g.foldAt(k), g.foldAt(k+1))
		ls = append(ls, Lemma{Name: name(fmt.Sprintf("fold_step_%d_%s", k, g.spec.Metrics[k].Name)), Pkg: g.V, Script: sb.String(), Quant: true})
	}
	// 4. conclusion: the whole parse accepts and records exactly the fields of c.  The fold states
	// are opaque here; what is known about them are the step equalities (3) and the invariant (2).
	{
		var sb strings.Builder
		sb.WriteString(g.declsNoChain())
		sb.WriteString("(define-fun vals_0 () (Array Int (_ BitVec 8)) noVals)\n")
		if g.V == "30" || g.V == "31" {
			sb.WriteString("(define-fun seen_0 () (Array Int Bool) noneSeen)\n")
		} else {
			sb.WriteString("(define-fun pos_0 () Int 0)\n")
		}
		if g.V == "20" {
			sb.WriteString("(define-fun cnt_0 () Int 0)\n")
		}
		for k := 1; k <= g.n; k++ {
			fmt.Fprintf(&sb, "(declare-const vals_%d (Array Int (_ BitVec 8)))\n", k)
			if g.V == "30" || g.V == "31" {
				fmt.Fprintf(&sb, "(declare-const seen_%d (Array Int Bool))\n", k)
			} else {
				fmt.Fprintf(&sb, "(declare-const pos_%d Int)\n", k)
			}
			if g.V == "20" {
				fmt.Fprintf(&sb, "(declare-const cnt_%d Int)\n", k)
			}
		}
		for k := 0; k < g.n; k++ {
			fmt.Fprintf(&sb, "(assert (= %s %s))\n", g.foldAt(k), g.foldAt(k+1))
		}
		fmt.Fprintf(&sb, "(assert %s)\n", g.inv(g.n, fmt.Sprint(g.n)))
		fmt.Fprintf(&sb, "(assert %s)\n", g.foldDefAt(g.n))
		var goal []string
		goal = append(goal, fmt.Sprintf("(= (p.err (parseRes%s S)) Nil)", g.V))
		for m := 0; m < g.n; m++ {
			goal = append(goal, fmt.Sprintf("(= (select (p.vals (parseRes%s S)) %d) (field%s c %d))", g.V, m, g.V, m))
		}
		fmt.Fprintf(&sb, "(assert (not (and %s)))\n", strings.Join(goal, " "))
		ls = append(ls, Lemma{Name: name("canonical_string_parses_back_to_the_object"), Pkg: g.V, Script: sb.String(), Quant: true})
	}
	// 5. isCanon provides the hypotheses with P_k := segpos_k(c)
	{
		var sb strings.Builder
		fmt.Fprintf(&sb, "(declare-const c %s)\n(declare-const S Str)\n(assert (isCanon%s S c))\n", g.T, g.V)
		var hyp []string
		hyp = append(hyp, fmt.Sprintf("(= (segpos%s_0 c) %d)", g.V, g.H), fmt.Sprintf("(= (s.len S) (segpos%s_%d c))", g.V, g.n))
		for k := 0; k < g.n; k++ {
			hyp = append(hyp, fmt.Sprintf("(= (segpos%s_%d c) (+ (segpos%s_%d c) (seglen%s_%d c)))", g.V, k+1, g.V, k, g.V, k))
			hyp = append(hyp, fmt.Sprintf("(segokAt%s_%d S c (segpos%s_%d c))", g.V, k, g.V, k))
		}
		for i := 0; i < g.H; i++ {
			hyp = append(hyp, fmt.Sprintf("(= (select (s.arr S) (+ (s.off S) %d)) #x%02x)", i, g.spec.Header[i]))
		}
		fmt.Fprintf(&sb, "(assert (not (and %s)))\n", strings.Join(hyp, " "))
		ls = append(ls, Lemma{Name: name("canonical_form_gives_segment_layout"), Pkg: g.V, Script: sb.String()})
	}
	// 6. the canonical form of an object is unique (two canonical strings have the same bytes)
	for k := -1; k < g.n; k++ {
		var sb strings.Builder
		if k < 0 {
			sb.WriteString(g.decls(g.n))
		} else {
			sb.WriteString(g.decls(k, k+1, g.n))
		}
		sb.WriteString("(declare-const S2 Str)\n(declare-const p Int)\n(assert (and (<= 0 (s.len S2)) (<= 0 (s.off S2))))\n")
		fmt.Fprintf(&sb, "(assert (= (s.len S2) P%d))\n", g.n)
		if k < 0 {
			for i := 0; i < g.H; i++ {
				fmt.Fprintf(&sb, "(assert (= (select (s.arr S2) (+ (s.off S2) %d)) #x%02x))\n", i, g.spec.Header[i])
			}
			fmt.Fprintf(&sb, "(assert (and (<= 0 p) (< p %d)))\n", g.H)
		} else {
			sb.WriteString(g.segHyp(k))
			fmt.Fprintf(&sb, "(assert (segokAt%s_%d S2 c P%d))\n(assert (and (<= P%d p) (< p P%d)))\n", g.V, k, k, k, k+1)
		}
		sb.WriteString("(assert (not (= (select (s.arr S) (+ (s.off S) p)) (select (s.arr S2) (+ (s.off S2) p)))))\n")
		nm := "header"
		if k >= 0 {
			nm = fmt.Sprintf("segment_%d", k)
		}
		if k < 0 && g.H == 0 {
			continue
		}
		ls = append(ls, Lemma{Name: name("canonical_form_unique/" + nm), Pkg: g.V, Script: sb.String()})
	}
	// 7. composition with the contracts of ParseVector and Vector: the parsed object equals c
	{
		var sb strings.Builder
		fmt.Fprintf(&sb, "(declare-const c %s)\n(declare-const o %s)\n(declare-const vals (Array Int (_ BitVec 8)))\n(assert (wf%s c))\n(assert (wf%s o))\n", g.T, g.T, g.V, g.V)
		for m := 0; m < g.n; m++ {
			fmt.Fprintf(&sb, "(assert (= (select vals %d) (field%s c %d)))\n(assert (= (field%s o %d) (select vals %d)))\n", m, g.V, m, g.V, m, m)
		}
		sb.WriteString("(assert (not (= o c)))\n")
		ls = append(ls, Lemma{Name: name("parsed_object_equals_original"), Pkg: g.V, Script: sb.String()})
	}
	return ls
}

func min(a, b int) int {
	if a < b {
		return a
	}
	return b
}

func roundTripLemmas(w *World, tier string) []Lemma {
	var ls []Lemma
	for _, v := range allPkgs {
		if _, _, err := w.PreludeFor(v); err != nil {
			continue
		}
		sp := w.Specs[v]
		g := &rtGen{V: v, T: sp.Type, spec: sp, n: len(sp.Metrics), H: len(sp.Header), sepAt0: v == "40"}
		ls = append(ls, g.lemmas()...)
	}
	return ls
}

func init() {
	vecTasks := func(tier string) []Task {
		var ts []Task
		for _, p := range allPkgs {
			T := typeOf(p)
			ts = append(ts, Task{Pkg: p, Func: "(" + T + ").Vector", Opts: RunOpts{TrackAllocs: true, AppendMustFit: true}, Match: `/post/canonical|/alloc/|/safety/`, Timeout: 60})
			ts = append(ts, Task{Pkg: p, Func: "lenVec", Match: `/post/exact`, Timeout: 60})
			ts = append(ts, Task{Pkg: p, Func: "ParseVector", Match: `/post/(accept_iff_grammar|accept_object)/`, Timeout: 60})
			ts = append(ts, Task{Pkg: p, Func: "(" + T + ").get", Match: ``})
			ts = append(ts, Task{Pkg: p, Func: "(" + T + ").Get", Match: `/post/known_metric_value`})
			// reachability of well-formed objects only, and Set as used by the parser
			ts = append(ts, Task{Pkg: p, Func: "(*" + T + ").Set", Match: `/post/(wf_preserved|vals_array|sets_metric|frame_other_metrics|fail_unchanged)$`})
		}
		return ts
	}
	rtTrusted := append(append([]string{}, trustedCommon...), "T5 assumed contracts of strings.HasPrefix, strings.Cut, sync.Pool, append", "T6 []byte header viewed as string header")
	props["C02"] = &PropDef{
		ID:      "C02",
		Tasks:   vecTasks,
		Lemmas:  func(w *World, tier string) []Lemma { return append(roundTripLemmas(w, tier), viewLemmas(w, tier)...) },
		Trusted: rtTrusted,
		Assumptions: []string{
			"composition: Vector's contract gives isCanon(result, c); lemma canonical_form_gives_segment_layout turns it into the segment layout; the fold-step lemmas show that the reference parser accepts that string and records exactly c's fields; ParseVector's contract (accept_iff_grammar, accept_object) transfers this to the real parser; parsed_object_equals_original (wf + equal fields => bytewise equal) gives ==; Get is a function of the fields",
			"reachable objects are the well-formed ones (wf is established by the zero value, preserved by Set, established by ParseVector: C07/C09 obligations)",
		},
	}
	props["C08"] = &PropDef{
		ID:      "C08",
		Tasks:   vecTasks,
		Lemmas:  func(w *World, tier string) []Lemma { return append(roundTripLemmas(w, tier), viewLemmas(w, tier)...) },
		Trusted: rtTrusted,
		Assumptions: []string{
			"the canonical spelling of an accepted string s is defined as the canonical form (isCanon) of the object whose fields are the values recorded by the reference fold for s: header, metrics in specification order, not-defined optional metrics (v2.0: all-ND groups) omitted",
			"ParseVector(s).Vector() is canonical for the parsed object (Vector's contract on a wf object); a canonical string is unique for its object (canonical_form_unique/*) and parses back to that object (round-trip lemmas), which gives 'equal to s when s is already canonical' and idempotence",
		},
	}
}
