package main

// CVSS v4.0 Score (C04, and the v4 parts of C10/C11/C12): case split on the MacroVector returned by
// macroVector() (which makes the loops over the highest-severity vectors concrete, so they are
// executed exactly), symbolic cut after the loop nest (severity distances equal the specification's,
// as integer-valued floats), final case split over the distances.

import (
	"fmt"
	"path/filepath"
	"regexp"
	"strings"
	"sync"
)

type mvRun struct {
	E  [6]int
	Fr *FuncRun
}

var validMVs [][6]int

func (w *World) validMacroVectors() [][6]int {
	if validMVs != nil {
		return validMVs
	}
	// the 270 MacroVectors of the specification's lookup table (generated spec file)
	prelude, _, _ := w.PreludeFor("40")
	re := regexp.MustCompile(`\(and \(= e1 (\d)\) \(= e2 (\d)\) \(= e3 (\d)\) \(= e4 (\d)\) \(= e5 (\d)\) \(= e6 (\d)\)\)`)
	seen := map[[6]int]bool{}
	for _, m := range re.FindAllStringSubmatch(prelude, -1) {
		var e [6]int
		for i := 0; i < 6; i++ {
			e[i] = int(m[i+1][0] - '0')
		}
		if !seen[e] {
			seen[e] = true
			validMVs = append(validMVs, e)
		}
	}
	return validMVs
}

func mvLabel(e [6]int) string { return fmt.Sprintf("%d%d%d%d%d%d", e[0], e[1], e[2], e[3], e[4], e[5]) }

var distRange = map[string]int{"dist1_40": 5, "dist2_40": 2, "dist36_40": 10, "dist4_40": 6}
var distCut = map[string]string{"dist1_40": "eq1svdst", "dist2_40": "eq2svdst", "dist36_40": "eq3eq6svdst", "dist4_40": "eq4svdst"}
var distNames = []string{"dist1_40", "dist2_40", "dist36_40", "dist4_40"}

// runScore40 verifies Score; match selects the post clauses that are goals.
func (cc *CheckCtx) runScore40(match string, withCuts bool) {
	w := cc.W
	re := regexp.MustCompile(match)
	mvs := w.validMacroVectors()
	if len(mvs) != 270 {
		cc.ToolErr = append(cc.ToolErr, fmt.Sprintf("expected 270 MacroVectors in the specification table, found %d", len(mvs)))
		return
	}
	key := "40.(*CVSS40).Score"
	cc.Funcs[key] = true
	to := 60
	if cc.Tier == "thorough" {
		to = 300
	}
	// phase 1: symbolic execution per MacroVector
	var runs []mvRun
	for _, e := range mvs {
		var rv []Value
		for _, x := range e {
			rv = append(rv, IntLit(int64(x)))
		}
		fr := w.RunFunc("40", "(*CVSS40).Score", RunOpts{ConcreteRet: map[string][]Value{"(CVSS40).macroVector": rv}})
		if fr.Err != "" {
			cc.funcErr("40", "(*CVSS40).Score", "[mv="+mvLabel(e)+"] "+fr.Err)
			return
		}
		runs = append(runs, mvRun{E: e, Fr: fr})
	}
	cc.noteWarn(runs[0].Fr)
	for k := range runs[0].Fr.VC.Inlined {
		cc.Inlined[k] = true
	}
	for k := range runs[0].Fr.VC.Modular {
		cc.Modular[k] = true
	}
	for k := range runs[0].Fr.VC.Extern {
		cc.Extern[k] = true
	}
	// phase 2: symbolic obligations (bit-vector / integer): safety, callee preconditions, cuts, shortcut
	type job struct {
		run *mvRun
		ob  *Oblig
	}
	var jobs []job
	for i := range runs {
		r := &runs[i]
		recv := recvTerm(r.Fr)
		for _, o := range r.Fr.VC.Obligs {
			if o.Kind == "cut" {
				if hasFP(o.Cond) {
					cc.ToolErr = append(cc.ToolErr, "cut obligation is not purely integer/bit-vector: "+o.Name)
				}
				if withCuts {
					jobs = append(jobs, job{r, o})
				}
				continue
			}
			if hasFP(o.Cond) {
				if !(o.Kind == "post" || o.Kind == "safety") {
					cc.ToolErr = append(cc.ToolErr, "floating-point obligation of unexpected kind: "+o.Name)
				}
				continue
			}
			if o.Kind == "post" && !re.MatchString(o.Name) {
				continue
			}
			jobs = append(jobs, job{r, o})
		}
		if i == 0 && withCuts {
			// no-impact shortcut: taken exactly when all six effective impact metrics are None
			sc := shortcutPC(r.Fr)
			if sc == nil {
				cc.ToolErr = append(cc.ToolErr, key+": no-impact shortcut not found")
				return
			}
			ob := &Oblig{Name: "gocvss40.(*CVSS40).Score/post/zero_iff_no_effective_impact", Kind: "post", Cond: Eq(sc, App("noImpact40", SBool, recv)), NAssume: 1}
			jobs = append(jobs, job{r, ob})
		}
	}
	// identical obligations of different runs (same term, e.g. the panic-freedom of index() at the same
	// call site) are decided once, under the weakest assumptions (the function's preconditions only);
	// if that does not succeed the obligation is retried per run with the run's own assumptions
	distinct := map[*Term]int{}
	var uniq []job
	dupOf := make([]int, len(jobs))
	for i, j := range jobs {
		if j.ob.Kind == "safety" {
			if k, ok := distinct[j.ob.Cond]; ok {
				dupOf[i] = k
				continue
			}
			distinct[j.ob.Cond] = i
		}
		dupOf[i] = i
		uniq = append(uniq, j)
	}
	cc.Extra["score40_symbolic_obligations"] = map[string]int{"generated": len(jobs), "distinct": len(uniq)}
	res := make([]ObResult, len(jobs))
	var wg sync.WaitGroup
	sem := make(chan struct{}, parallelism)
	for i, j := range jobs {
		if dupOf[i] != i {
			continue
		}
		wg.Add(1)
		go func(i int, j job) {
			defer wg.Done()
			sem <- struct{}{}
			defer func() { <-sem }()
			o := *j.ob
			base := o.Name
			o.Name = base + "[mv=" + mvLabel(j.run.E) + "]"
			t := to
			if knownFindingObl(base) && t > 8 {
				t = 8
			}
			if o.Kind == "safety" {
				weak := o
				weak.NAssume = 1 // wf only
				weak.Hyps = nil
				r := dischargeOne(j.run.Fr, &weak, t)
				if r.Status == "proved" {
					res[i] = r
					return
				}
			}
			r := dischargeOne(j.run.Fr, &o, t)
			res[i] = r
		}(i, j)
	}
	wg.Wait()
	for i := range jobs {
		if dupOf[i] != i {
			res[i] = res[dupOf[i]]
			res[i].Name = jobs[i].ob.Name + "[mv=" + mvLabel(jobs[i].run.E) + "]"
			res[i].Seconds = 0
			if res[i].Status != "proved" {
				o := *jobs[i].ob
				o.Name = res[i].Name
				res[i] = dischargeOne(jobs[i].run.Fr, &o, to)
			}
		}
	}
	for i := range res {
		if res[i].Status == "refuted" {
			// replay with the run's own obligation object
			o := *jobs[i].ob
			o.Name = res[i].Name
			jobs[i].run.Fr.VC.Obligs = append(jobs[i].run.Fr.VC.Obligs, &o)
			cc.replay(jobs[i].run.Fr, &res[i])
		}
	}
	cc.Results = append(cc.Results, res...)
	// phase 3: floating-point goals by case split over the severity distances
	type out struct {
		res   CaseResult
		goals []CaseGoal
		insts []CaseInst
	}
	outs := make([]out, len(runs))
	var wg2 sync.WaitGroup
	sem2 := make(chan struct{}, 16)
	for i := range runs {
		wg2.Add(1)
		go func(i int) {
			defer wg2.Done()
			sem2 <- struct{}{}
			defer func() { <-sem2 }()
			r := &runs[i]
			termMu.Lock()
			goals, insts := score40Instances(r, re)
			assumes := append([]*Term(nil), r.Fr.VC.Assumes...)
			termMu.Unlock()
			outs[i] = out{RunCases(r.Fr.Prelude, assumes, goals, insts, filepath.Join(smtOutDir, "cases"), "score40."+mvLabel(r.E), 900), goals, insts}
		}(i)
	}
	wg2.Wait()
	total := 0
	secs := 0.0
	calls := 0
	failsByGoal := map[string][]string{}
	goalNames := map[string]string{}
	var firstFail = map[string]struct {
		run  *mvRun
		inst CaseInst
	}{}
	skippedAll := map[string]bool{}
	for i, o := range outs {
		total += o.res.Instances
		secs += o.res.Seconds
		calls += o.res.SolverCalls
		if o.res.ToolErr != "" {
			cc.ToolErr = append(cc.ToolErr, o.res.ToolErr)
		}
		if len(o.res.Vacuous) > 0 {
			cc.ToolErr = append(cc.ToolErr, fmt.Sprintf("Score[mv=%s]: %d instances violate the assumptions", mvLabel(runs[i].E), len(o.res.Vacuous)))
		}
		for gi, g := range o.goals {
			goalNames[g.Name] = g.Kind
			if o.res.Skipped[gi] {
				skippedAll[g.Name] = true
			}
		}
		for _, f := range o.res.Fails {
			g := o.goals[f.Goal]
			failsByGoal[g.Name] = append(failsByGoal[g.Name], "mv="+mvLabel(runs[i].E)+" "+f.Label+" ("+f.Status+")")
			if _, ok := firstFail[g.Name]; !ok {
				for _, in := range o.insts {
					if in.Label == f.Label {
						firstFail[g.Name] = struct {
							run  *mvRun
							inst CaseInst
						}{&runs[i], in}
					}
				}
			}
		}
	}
	cc.Instances += total
	cc.Exhaustive = true
	stages, _ := cc.Extra["case_split_stages"].([]interface{})
	stages = append(stages, map[string]interface{}{"stage": key + "/macrovector-x-distances", "domain": "270 MacroVectors x severity distances d1 0..5, d2 0..2, d3/6 0..10, d4 0..6 (superset of the reachable tuples)", "instances": total, "solver_queries": calls, "seconds": secs, "exhaustive": true})
	cc.Extra["case_split_stages"] = stages
	if len(outs) > 0 && len(outs[0].insts) > 0 {
		cc.Samples = append(cc.Samples, map[string]interface{}{"function": key, "macrovector": mvLabel(runs[int(cc.Seed%270+270)%270].E), "instance": outs[0].insts[len(outs[0].insts)/2].Label})
	}
	for name, kind := range goalNames {
		r := ObResult{Name: name + "[270 MacroVectors x distances]", Kind: kind + "/case-split", Func: "(*CVSS40).Score", Pkg: "40", Solver: "z3(ground evaluation)", Seconds: secs / float64(len(goalNames))}
		bad := failsByGoal[name]
		switch {
		case len(bad) == 0 && !skippedAll[name]:
			r.Status = "proved"
		case len(bad) == 0:
			r.Status = "undischarged"
			r.Output = "goal not closed by the substitution of this stage"
		default:
			r.Status = "refuted"
			n := len(bad)
			if n > 8 {
				bad = bad[:8]
			}
			r.Output = fmt.Sprintf("%d of %d instances fail, e.g. %s", n, total, strings.Join(bad, "; "))
			ff := firstFail[name]
			cc.replayScore40(ff.run, ff.inst, &r)
		}
		cc.Results = append(cc.Results, r)
	}
}

func recvTerm(fr *FuncRun) *Term {
	v := fr.Params[fr.Ex.fn.Params[0].Name()]
	if p, ok := v.(*PtrV); ok {
		v = fr.Entry.mem[p.A]
	}
	return structTerm(v.(*StructV))
}

// shortcutPC: path condition of the early "return 0.0".
func shortcutPC(fr *FuncRun) *Term {
	for _, re := range fr.Ex.rets {
		if len(re.vals) == 1 {
			if t, ok := re.vals[0].(*Term); ok && t.Op == "fp" && t.F == 0 && !re.pc.IsTrue() {
				return re.pc
			}
		}
	}
	return nil
}

func score40Instances(r *mvRun, re *regexp.Regexp) ([]CaseGoal, []CaseInst) {
	fr := r.Fr
	recv := recvTerm(fr)
	var goals []CaseGoal
	for _, o := range fr.VC.Obligs {
		if hasFP(o.Cond) && ((o.Kind == "post" && re.MatchString(o.Name)) || o.Kind == "safety") {
			cond := o.Cond
			if o.Kind == "post" && cond.Op == "=>" {
				// the guard (no panic on the way to the return) is established by the safety obligations;
				// the clause itself is checked unguarded, which is stronger
				cond = cond.Args[1]
			}
			goals = append(goals, CaseGoal{Name: o.Name, Kind: o.Kind, Cond: cond})
		}
	}
	base := map[*Term]*Term{}
	for i, n := range []string{"mveq1_40", "mveq2_40", "mveq3_40", "mveq4_40", "mveq5_40", "mveq6_40"} {
		base[App(n, SInt, recv)] = IntLit(int64(r.E[i]))
	}
	base[App("noImpact40", SBool, recv)] = False
	if sc := shortcutPC(fr); sc != nil {
		// instances of this stage are on the main path: the shortcut return is not taken, the
		// final return is (panic-freedom on the way is a separate, symbolic obligation)
		for _, re := range fr.Ex.rets {
			if re.pc == sc {
				base[re.pc] = False
			} else if !re.pc.IsTrue() {
				base[re.pc] = True
			}
		}
	}
	var insts []CaseInst
	var rec func(k int, sub map[*Term]*Term, label string)
	rec = func(k int, sub map[*Term]*Term, label string) {
		if k == len(distNames) {
			insts = append(insts, CaseInst{Sub: sub, Label: strings.TrimSpace(label)})
			return
		}
		dn := distNames[k]
		cut := fr.Ex.cutRegs[distCut[dn]]
		for d := 0; d <= maxDist40(dn, r.E); d++ {
			ns := cloneSub(sub)
			ns[App(dn, SInt, recv)] = IntLit(int64(d))
			if cut != nil {
				ns[cut] = FPLit(float64(d))
			}
			rec(k+1, ns, fmt.Sprintf("%s %s=%d", label, dn, d))
		}
	}
	rec(0, base, "")
	return goals, insts
}

// replayScore40 asks the solver for an object of the failing class and runs the real code on it.
func (cc *CheckCtx) replayScore40(r *mvRun, in CaseInst, res *ObResult) {
	defer func() {
		if rec := recover(); rec != nil {
			res.Replay = &ReplayInfo{Note: fmt.Sprintf("replay not possible: %v", rec)}
		}
	}()
	if r == nil {
		return
	}
	fr := r.Fr
	recv := recvTerm(fr)
	termMu.Lock()
	var cs []*Term
	cs = append(cs, App("wf40", SBool, recv), Not(App("noImpact40", SBool, recv)))
	for i, n := range []string{"mveq1_40", "mveq2_40", "mveq3_40", "mveq4_40", "mveq5_40", "mveq6_40"} {
		cs = append(cs, Eq(App(n, SInt, recv), IntLit(int64(r.E[i]))))
	}
	for _, dn := range distNames {
		if v, ok := in.Sub[App(dn, SInt, recv)]; ok {
			cs = append(cs, Eq(App(dn, SInt, recv), v))
		}
	}
	ob := &Oblig{Name: res.Name + "/witness", Kind: "witness", Cond: Not(And(cs...)), NAssume: 0}
	termMu.Unlock()
	fr.VC.Obligs = append(fr.VC.Obligs, ob)
	sub := &ObResult{Name: ob.Name}
	cc.replay(fr, sub)
	res.Replay = sub.Replay
	if res.Replay != nil {
		if res.Replay.Inputs == nil {
			res.Replay.Inputs = map[string]interface{}{}
		}
		res.Replay.Inputs["class"] = "mv=" + mvLabel(r.E) + " " + in.Label
		if !res.Replay.Confirmed && res.Replay.Note == "solver gave no usable model values" {
			res.Replay.Note = "the failing class (MacroVector, distances) is not reachable by any object; the obligation fails on a distance tuple outside the reachable set"
		}
	}
}

// maxDist40: largest severity distance inside a MacroVector level (its depth); the lemma
// C04/lemma/distances_in_range proves that no object exceeds it.
func maxDist40(dn string, e [6]int) int {
	switch dn {
	case "dist1_40":
		return []int{0, 3, 4}[e[0]]
	case "dist2_40":
		return []int{0, 1}[e[1]]
	case "dist4_40":
		return []int{5, 4, 3}[e[3]]
	case "dist36_40":
		switch {
		case e[2] == 0 && e[5] == 0:
			return 6
		case e[2] == 0:
			return 5
		case e[2] == 1:
			return 7
		}
		return 9
	}
	return 0
}

func score40Lemmas(w *World, tier string) []Lemma {
	decl := "(declare-const c CVSS40)\n(assert (wf40 c))\n"
	ls := []Lemma{
		{Name: "C04/lemma/macrovector_is_one_of_the_270", Pkg: "40", Script: decl + "(assert (not (validMV40 (mveq1_40 c) (mveq2_40 c) (mveq3_40 c) (mveq4_40 c) (mveq5_40 c) (mveq6_40 c))))\n"},
		{Name: "C04/lemma/distances_in_range/eq1", Pkg: "40", Script: decl + "(assert (not (and (<= 0 (dist1_40 c)) (<= (to_real (dist1_40 c)) (- (depth1_40 (mveq1_40 c)) 1.0)))))\n"},
		{Name: "C04/lemma/distances_in_range/eq2", Pkg: "40", Script: decl + "(assert (not (and (<= 0 (dist2_40 c)) (<= (to_real (dist2_40 c)) (- (depth2_40 (mveq2_40 c)) 1.0)))))\n"},
		{Name: "C04/lemma/distances_in_range/eq4", Pkg: "40", Script: decl + "(assert (not (and (<= 0 (dist4_40 c)) (<= (to_real (dist4_40 c)) (- (depth4_40 (mveq4_40 c)) 1.0)))))\n"},
		{Name: "C04/lemma/distances_in_range/eq3eq6", Pkg: "40", Script: decl + "(assert (not (and (<= 0 (dist36_40 c)) (<= (to_real (dist36_40 c)) (- (depth36_40 (mveq3_40 c) (mveq6_40 c)) 1.0)))))\n"},
	}
	return append(ls, intFloatLemmas("C04", "40")...)
}

func init() {
	trustedFP := append(append([]string{}, trustedCommon...),
		"T3 IEEE-754 binary64, round-to-nearest-even per operation, no FMA contraction; math.Round/NaN/IsNaN as documented",
		"integer-valued floats: addition, subtraction and comparison of float64 values that are integers of magnitude below 2^11 are performed on the integers; their agreement with the IEEE-754 operations is discharged in C04 (obligations C04/lemma/integer_valued_floats_exact/*, all pairs of 12-bit signed integers, bit-blasted), the embedding of the bounded mathematical integer n as the 12-bit vector is argued",
		"T8 v4.0 lookup table, highest-severity vectors and depths transcribed from the FIRST data embedded in github.com/hdonnay/claircore/toolkit (module cache), not from pandatix/go-cvss")
	props["C04"] = &PropDef{
		ID: "C04",
		Tasks: func(tier string) []Task {
			return []Task{{Pkg: "40", Func: "(CVSS40).macroVector", Match: `/post/eq\d$|/safety/`}}
		},
		Lemmas: score40Lemmas,
		Custom: func(cc *CheckCtx) { cc.runScore40(`/post/spec$`, true) },
		Trusted: trustedFP,
		Assumptions: []string{
			"the 270-way split is exhaustive by lemma macrovector_is_one_of_the_270; the distance ranges by lemma distances_in_range",
			"lifting to all 2.67e17 objects is symbolic: macroVector's contract, the shortcut obligation and the cut obligations are proved for all well-formed byte patterns",
		},
	}
}
