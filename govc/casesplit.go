package main

// Exhaustive case splits over finite domains: an obligation "forall codes. wf => goal" is discharged
// as the finite conjunction of its instances.  Every instance is obtained by substituting constants
// for the input symbols (and cut symbols) in the terms produced by the symbolic execution of the real
// function; what remains is ground floating-point / real arithmetic that the solver evaluates with
// its own IEEE-754 implementation.

import (
	"fmt"
	"os"
	"path/filepath"
	"strings"
	"sync"
	"sync/atomic"
	"time"
)

type CaseGoal struct {
	Name string
	Kind string
	Cond *Term
}

type CaseInst struct {
	Sub   map[*Term]*Term
	Label string
}

type caseFail struct {
	Goal   int
	Label  string
	Status string
}

type CaseResult struct {
	Instances   int
	SolverCalls int
	BySimplifier int
	Fails       []caseFail
	Vacuous     []string
	Seconds     float64
	ToolErr     string
	Skipped     []bool // goals that still contain free symbols under the stage's substitution
	Concrete    map[string]CaseInst // failing instance label -> fully constant instance on which the goal fails
}

const caseBatch = 300

// stageBudget bounds the wall-clock time of one case-split stage in the quick tier (a stage of the
// unchanged tree takes at most about a minute; only changed code produces hard instances).  Batches
// not started within the budget are reported as not attempted, i.e. the goal is undecided.
var stageBudget time.Duration

// RunCases checks every goal on every instance. assumes are conjoined as hypotheses (they must be
// satisfiable on every instance: a vacuity check-sat is issued per instance when they do not
// simplify to true).
func RunCases(prelude string, assumes []*Term, goals []CaseGoal, insts []CaseInst, dir, name string, timeoutS int) CaseResult {
	// Instances that leave receiver bits open and whose goals still mention them after simplification
	// (the code reads metrics outside the stage) are first tried on candidate values of the open bits
	// (ground, fast, and a failing candidate is a concrete input); only when every candidate passes
	// is the symbolic query (all values of the open bits) sent to the solver.
	if len(insts) == 0 || !subHasRest(insts[0].Sub) {
		return runCasesCore(prelude, assumes, goals, insts, dir, name, timeoutS)
	}
	termMu.Lock()
	// goals that keep free symbols other than open bits belong to another stage (skipped by the core)
	skipW := make([]bool, len(goals))
	termMark()
	for gi, g := range goals {
		x := Subst(g.Cond, insts[0].Sub, map[*Term]*Term{})
		fs := map[*Term]bool{}
		FreeSyms(x, fs, map[*Term]bool{})
		for f := range fs {
			if !strings.HasSuffix(f.Name, "!rest") {
				skipW[gi] = true
			}
		}
	}
	termRelease()
	var closed, open []CaseInst
	for _, in := range insts {
		termMark()
		isOpen := false
		memo := map[*Term]*Term{}
		for gi, g := range goals {
			if skipW[gi] {
				continue
			}
			x := Subst(g.Cond, in.Sub, memo)
			if implMentionsRest(x, map[*Term]bool{}) {
				if !isOpen && len(open) == 0 && os.Getenv("GOVC_DEBUG_OPEN") != "" {
					pp := NewPrinter()
					pp.Prepare(x)
					body := pp.Emit(x)
					fmt.Fprintf(os.Stderr, "open instance %s goal %s:\n%s\n%s\n%s\n", in.Label, g.Name, pp.Decls(nil), pp.Defs(), body)
				}
				isOpen = true
			}
		}
		termRelease()
		if isOpen {
			open = append(open, in)
		} else {
			closed = append(closed, in)
		}
	}
	termMu.Unlock()
	if len(open) == 0 {
		return runCasesCore(prelude, assumes, goals, insts, dir, name, timeoutS)
	}
	phase1 := append([]CaseInst(nil), closed...)
	candOf := map[string]string{} // candidate label -> original label
	// candidates are tried for at most 400 open instances (evenly spaced): enough to find a concrete
	// witness when the dependence on open bits is systematic; the others go to the symbolic phase
	stride := 1
	if len(open) > 400 {
		stride = (len(open) + 399) / 400
	}
	for oi, in := range open {
		if oi%stride != 0 {
			continue
		}
		for _, c := range candidateInsts(in) {
			candOf[c.Label] = in.Label
			phase1 = append(phase1, c)
		}
	}
	res := runCasesCore(prelude, assumes, goals, phase1, dir, name+".cand", timeoutS)
	res.Instances = len(insts)
	res.Concrete = map[string]CaseInst{}
	vac := map[string]bool{}
	for _, v := range res.Vacuous {
		vac[v] = true
	}
	var keepVac []string
	for _, v := range res.Vacuous {
		if _, isCand := candOf[v]; !isCand {
			keepVac = append(keepVac, v) // a candidate outside the assumptions is simply not a witness
		}
	}
	res.Vacuous = keepVac
	failedOpen := map[string]bool{}
	var fails []caseFail
	for _, f := range res.Fails {
		orig, isCand := candOf[f.Label]
		if !isCand {
			fails = append(fails, f)
			continue
		}
		if vac[f.Label] || f.Status != "sat" {
			continue
		}
		if !failedOpen[orig+fmt.Sprint(f.Goal)] {
			failedOpen[orig+fmt.Sprint(f.Goal)] = true
			failedOpen[orig] = true
			fails = append(fails, caseFail{Goal: f.Goal, Label: orig, Status: "sat"})
			for _, c := range phase1 {
				if c.Label == f.Label {
					c.Label = orig
					res.Concrete[orig] = c
					break
				}
			}
		}
	}
	res.Fails = fails
	var phase2 []CaseInst
	for _, in := range open {
		if !failedOpen[in.Label] {
			phase2 = append(phase2, in)
		}
	}
	if len(phase2) > 0 {
		r2 := runCasesCore(prelude, assumes, goals, phase2, dir, name+".open", timeoutS)
		res.Fails = append(res.Fails, r2.Fails...)
		res.Vacuous = append(res.Vacuous, r2.Vacuous...)
		res.SolverCalls += r2.SolverCalls
		res.Seconds += r2.Seconds
		if r2.ToolErr != "" && res.ToolErr == "" {
			res.ToolErr = r2.ToolErr
		}
	}
	return res
}

// implMentionsRest: do open receiver bits occur in the term outside the receiver object handed to the
// specification functions (mk-CVSSnn ...)?  The specification reads the whole object by definition;
// what matters is whether the implementation's side still depends on bits the stage leaves open.
func implMentionsRest(t *Term, seen map[*Term]bool) bool {
	if seen[t] {
		return false
	}
	seen[t] = true
	if t.Op == "sym" {
		return strings.HasSuffix(t.Name, "!rest")
	}
	if strings.HasPrefix(t.Op, "mk-CVSS") {
		return false
	}
	for _, a := range t.Args {
		if implMentionsRest(a, seen) {
			return true
		}
	}
	return false
}

func subHasRest(sub map[*Term]*Term) bool {
	for _, v := range sub {
		if v.Op == "bv" || len(v.Args) == 0 {
			continue
		}
		fs := map[*Term]bool{}
		FreeSyms(v, fs, map[*Term]bool{})
		for f := range fs {
			if strings.HasSuffix(f.Name, "!rest") {
				return true
			}
		}
	}
	return false
}

// candidateInsts: the instance with its open bits set to all zero, all one, and each single bit
// set / cleared.  Caller holds termMu or is single-threaded with respect to term construction.
func candidateInsts(in CaseInst) []CaseInst {
	termMu.Lock()
	defer termMu.Unlock()
	rests := map[*Term]bool{}
	for _, v := range in.Sub {
		fs := map[*Term]bool{}
		FreeSyms(v, fs, map[*Term]bool{})
		for f := range fs {
			if strings.HasSuffix(f.Name, "!rest") {
				rests[f] = true
			}
		}
	}
	var rs []*Term
	for r := range rests {
		rs = append(rs, r)
	}
	sortTerms(rs)
	all := func(v uint64) map[*Term]*Term {
		m := map[*Term]*Term{}
		for _, r := range rs {
			m[r] = BVLit(v, 8)
		}
		return m
	}
	cands := []map[*Term]*Term{all(0), all(0xff)}
	for _, r := range rs {
		for b := 0; b < 8; b++ {
			m := all(0)
			m[r] = BVLit(1<<uint(b), 8)
			cands = append(cands, m)
			m2 := all(0xff)
			m2[r] = BVLit(0xff&^(1<<uint(b)), 8)
			cands = append(cands, m2)
			if b < 7 {
				// two adjacent bits: the highest code of a two-bit field
				m3 := all(0)
				m3[r] = BVLit(3<<uint(b), 8)
				cands = append(cands, m3)
			}
		}
	}
	var out []CaseInst
	seen := map[string]bool{}
	for i, c := range cands {
		sub := map[*Term]*Term{}
		memo := map[*Term]*Term{}
		key := ""
		for k, v := range in.Sub {
			sub[k] = Subst(v, c, memo)
		}
		for _, r := range rs {
			_ = r
		}
		// distinct candidates only (different open bits may fall outside the open mask)
		var ks []string
		for k, v := range sub {
			if v.Op == "bv" {
				ks = append(ks, k.Name+"="+v.IV.String())
			}
		}
		sortStrings(ks)
		key = strings.Join(ks, ",")
		if seen[key] {
			continue
		}
		seen[key] = true
		out = append(out, CaseInst{Sub: sub, Label: fmt.Sprintf("%s [open bits candidate %d]", in.Label, i)})
	}
	return out
}

func sortStrings(a []string) {
	for i := 1; i < len(a); i++ {
		for j := i; j > 0 && a[j] < a[j-1]; j-- {
			a[j], a[j-1] = a[j-1], a[j]
		}
	}
}

func runCasesCore(prelude string, assumes []*Term, goals []CaseGoal, insts []CaseInst, dir, name string, timeoutS int) CaseResult {
	t0 := time.Now()
	res := CaseResult{Instances: len(insts)}
	type batchOut struct {
		fails  []caseFail
		vac    []string
		calls  int
		simp   int
		tool   string
	}
	// goals whose terms are not closed by this stage's substitution belong to another stage
	res.Skipped = make([]bool, len(goals))
	if len(insts) > 0 {
		termMu.Lock()
		termMark()
		for gi, g := range goals {
			x := Subst(g.Cond, insts[0].Sub, map[*Term]*Term{})
			fs := map[*Term]bool{}
			FreeSyms(x, fs, map[*Term]bool{})
			for f := range fs {
				if strings.HasSuffix(f.Name, "!rest") {
					delete(fs, f) // open bits of the receiver: the goal is checked for all their values
				}
			}
			if len(fs) > 0 {
				res.Skipped[gi] = true
				if os.Getenv("GOVC_DEBUG") != "" {
					var ns []string
					for f := range fs {
						ns = append(ns, f.Name)
					}
					fmt.Fprintf(os.Stderr, "skipped goal %s: free symbols %v\n", g.Name, ns)
				}
			}
		}
		termRelease()
		termMu.Unlock()
	}
	skipped := res.Skipped
	var undecided int64
	nb := (len(insts) + caseBatch - 1) / caseBatch
	outs := make([]batchOut, nb)
	var wg sync.WaitGroup
	sem := make(chan struct{}, 16)
	for b := 0; b < nb; b++ {
		lo, hi := b*caseBatch, (b+1)*caseBatch
		if hi > len(insts) {
			hi = len(insts)
		}
		// build the script for this batch (term operations are serialised)
		termMu.Lock()
		termMark()
		var sb strings.Builder
		sb.WriteString(scriptHead)
		// ground instances are decided in milliseconds; an instance that keeps open receiver bits
		// (code reading metrics outside the stage) may be hard: bound each query
		sb.WriteString("(set-option :timeout 6000)\n")
		sb.WriteString(filterPrelude(prelude, ""))
		sb.WriteString(structSortDeclsExtra(prelude))
		type expect struct {
			inst int
			goal int // -1 = vacuity check (expect sat)
		}
		var exps []expect
		simp := 0
		for i := lo; i < hi; i++ {
			memo := map[*Term]*Term{}
			var as []*Term
			for _, a := range assumes {
				x := Subst(a, insts[i].Sub, memo)
				if !x.IsTrue() {
					as = append(as, x)
				}
			}
			p := NewPrinter()
			var gs []*Term
			for gi, g := range goals {
				if skipped[gi] {
					gs = append(gs, True)
					continue
				}
				gs = append(gs, Subst(g.Cond, insts[i].Sub, memo))
			}
			p.Prepare(append(append([]*Term(nil), as...), gs...)...)
			var body strings.Builder
			for _, a := range as {
				fmt.Fprintf(&body, "(assert %s)\n", p.Emit(a))
			}
			if len(as) > 0 {
				body.WriteString("(check-sat)\n")
				exps = append(exps, expect{i, -1})
			}
			for gi, g := range gs {
				if skipped[gi] {
					continue
				}
				if g.IsTrue() {
					simp++
					continue
				}
				fmt.Fprintf(&body, "(push)\n(assert (not %s))\n(check-sat)\n(pop)\n", p.Emit(g))
				exps = append(exps, expect{i, gi})
			}
			sb.WriteString("(push)\n")
			sb.WriteString(p.Decls(nil))
			sb.WriteString(p.Defs())
			sb.WriteString(body.String())
			sb.WriteString("(pop)\n")
		}
		script := sb.String()
		termRelease()
		termMu.Unlock()
		outs[b].simp = simp
		if len(exps) == 0 {
			continue
		}
		wg.Add(1)
		sem <- struct{}{}
		go func(b int, script string, exps []expect) {
			defer wg.Done()
			defer func() { <-sem }()
			bname := fmt.Sprintf("%s.batch%04d", name, b)
			var sts []string
			var out string
			// once many instances are undecided the goal has failed anyway: do not spend minutes per
			// remaining batch on hard queries (only happens on changed code)
			if atomic.LoadInt64(&undecided) > 60 || (stageBudget > 0 && time.Since(t0) > stageBudget) {
				outs[b].calls = len(exps)
				for _, e := range exps {
					if e.goal >= 0 {
						outs[b].fails = append(outs[b].fails, caseFail{Goal: e.goal, Label: insts[e.inst].Label, Status: "not attempted (goal already undecided on more than 60 instances, or stage time budget used up)"})
						break
					}
				}
				return
			}
			bt := timeoutS
			if bt > 150 {
				bt = 150
			}
			for _, sv := range []string{"z3-5", "z3-4"} {
				sts, out, _ = RunBatch(script, dir, bname, bt, sv)
				if len(sts) > 0 && !strings.Contains(out, "(error") {
					break
				}
			}
			outs[b].calls = len(exps)
			if strings.Contains(out, "(error") || len(sts) == 0 || len(sts) > len(exps) {
				outs[b].tool = fmt.Sprintf("batch %s: solver answered %d of %d queries: %s", bname, len(sts), len(exps), truncate(out, 600))
				return
			}
			for len(sts) < len(exps) {
				sts = append(sts, "unknown") // the solver ran out of time on this batch: undecided instances
			}
			nfail0 := len(outs[b].fails)
			defer func() {
				// batches without a failing instance are not kept (hundreds of MB per check otherwise)
				if len(outs[b].fails) == nfail0 && outs[b].tool == "" && len(outs[b].vac) == 0 && os.Getenv("GOVC_KEEP_SMT") == "" {
					os.Remove(filepath.Join(dir, bname+".smt2"))
				}
			}()
			for k, e := range exps {
				if e.goal < 0 {
					if sts[k] == "unsat" {
						outs[b].vac = append(outs[b].vac, insts[e.inst].Label)
					}
					continue
				}
				if sts[k] != "unsat" {
					outs[b].fails = append(outs[b].fails, caseFail{Goal: e.goal, Label: insts[e.inst].Label, Status: sts[k]})
					if sts[k] != "sat" {
						atomic.AddInt64(&undecided, 1)
					}
				}
			}
		}(b, script, exps)
	}
	wg.Wait()
	for _, o := range outs {
		res.Fails = append(res.Fails, o.fails...)
		res.Vacuous = append(res.Vacuous, o.vac...)
		res.SolverCalls += o.calls
		res.BySimplifier += o.simp
		if o.tool != "" && res.ToolErr == "" {
			res.ToolErr = o.tool
		}
	}
	res.Seconds = time.Since(t0).Seconds()
	_ = filepath.Join
	return res
}

// packObject builds the bytes of an object from metric codes according to the representation.
func packObject(rp *Repr, codes map[string]int) []uint8 {
	b := make([]uint8, rp.NBytes)
	for _, f := range rp.Fields {
		code, ok := codes[f.Metric]
		if !ok {
			continue
		}
		w := 0
		for _, p := range f.Pieces {
			w += p.Hi - p.Lo + 1
		}
		pos := w
		for _, p := range f.Pieces {
			pw := p.Hi - p.Lo + 1
			pos -= pw
			part := (code >> uint(pos)) & ((1 << uint(pw)) - 1)
			b[p.Byte] |= uint8(part << uint(p.Lo))
		}
	}
	return b
}

func (rp *Repr) Field(m string) *ReprField {
	for i := range rp.Fields {
		if rp.Fields[i].Metric == m {
			return &rp.Fields[i]
		}
	}
	return nil
}

// enumCodes enumerates all code assignments of the given metrics (cartesian product).
func enumCodes(rp *Repr, metrics []string, f func(map[string]int)) {
	cur := map[string]int{}
	var rec func(i int)
	rec = func(i int) {
		if i == len(metrics) {
			cp := make(map[string]int, len(cur))
			for k, v := range cur {
				cp[k] = v
			}
			f(cp)
			return
		}
		n := len(rp.Field(metrics[i]).Codes)
		for c := 0; c < n; c++ {
			cur[metrics[i]] = c
			rec(i + 1)
		}
	}
	rec(0)
}

func objLabel(rp *Repr, codes map[string]int, order []string) string {
	var parts []string
	for _, m := range order {
		if c, ok := codes[m]; ok {
			parts = append(parts, m+":"+rp.Field(m).Codes[c])
		}
	}
	return strings.Join(parts, "/")
}

// receiverSyms returns the byte symbols of the (value or pointer) receiver of a run.
func receiverSyms(fr *FuncRun) []*Term {
	fn := fr.Ex.fn
	v := fr.Params[fn.Params[0].Name()]
	if p, ok := v.(*PtrV); ok {
		v = fr.Entry.mem[p.A]
	}
	sv := v.(*StructV)
	var r []*Term
	for _, f := range sv.Fields {
		r = append(r, f.(*Term))
	}
	return r
}

// knownMask: the bits of each byte that belong to the metrics fixed by 'codes'.
func knownMask(rp *Repr, codes map[string]int) []uint8 {
	k := make([]uint8, rp.NBytes)
	for _, f := range rp.Fields {
		if _, ok := codes[f.Metric]; !ok {
			continue
		}
		for _, p := range f.Pieces {
			pw := p.Hi - p.Lo + 1
			k[p.Byte] |= uint8(((1 << uint(pw)) - 1) << uint(p.Lo))
		}
	}
	return k
}

// restSym: the symbol standing for the bits of a receiver byte that an instance leaves open.
// The two objects of a monotonicity pair (suffix "_b") share their open bits.
func restSym(s *Term) *Term {
	return Sym(strings.Replace(s.Name, "_b_u", "_u", 1)+"!rest", s.Sort)
}

// objSubP substitutes, for every receiver byte, the constant bits of the metrics the instance fixes
// and leaves all other bits symbolic: byte = C | (rest & ~K).  A goal that is proved on the instance
// is therefore proved for every value of the metrics the stage does not enumerate; code that masks
// its fields correctly simplifies to the same ground terms as with a fully constant object.
func objSubP(syms []*Term, bytes, known []uint8) map[*Term]*Term {
	m := map[*Term]*Term{}
	for i, s := range syms {
		if known[i] == 0xff {
			m[s] = BVLit(uint64(bytes[i]), 8)
			continue
		}
		m[s] = BVBin("bvor", BVLit(uint64(bytes[i]&known[i]), 8), BVBin("bvand", restSym(s), BVLit(uint64(^known[i]), 8)))
	}
	return m
}

func objSub(syms []*Term, bytes []uint8) map[*Term]*Term {
	m := map[*Term]*Term{}
	for i, s := range syms {
		m[s] = BVLit(uint64(bytes[i]), 8)
	}
	return m
}

// concretizeInst turns an instance with open receiver bits into a fully constant one on which the goal
// fails (for the replay on the real code).
func concretizeInst(res *CaseResult, in CaseInst) (CaseInst, bool) {
	if !subHasRest(in.Sub) {
		return in, true
	}
	if res != nil && res.Concrete != nil {
		if c, ok := res.Concrete[in.Label]; ok {
			return c, true
		}
	}
	// no failing candidate is known: the goal failed without mentioning the open bits (any value is
	// a witness) or only symbolically; try the representative with all open bits zero
	termMu.Lock()
	defer termMu.Unlock()
	zero := map[*Term]*Term{}
	for _, v := range in.Sub {
		fs := map[*Term]bool{}
		FreeSyms(v, fs, map[*Term]bool{})
		for f := range fs {
			if strings.HasSuffix(f.Name, "!rest") {
				zero[f] = BVLit(0, 8)
			}
		}
	}
	out := CaseInst{Label: in.Label, Sub: map[*Term]*Term{}}
	memo := map[*Term]*Term{}
	for k, v := range in.Sub {
		out.Sub[k] = Subst(v, zero, memo)
	}
	return out, true
}

func sortTerms(ts []*Term) {
	for i := 1; i < len(ts); i++ {
		for j := i; j > 0 && ts[j].Name < ts[j-1].Name; j-- {
			ts[j], ts[j-1] = ts[j-1], ts[j]
		}
	}
}
