package main

// Exhaustive case splits over finite domains: an obligation "forall codes. wf => goal" is discharged
// as the finite conjunction of its instances.  Every instance is obtained by substituting constants
// for the input symbols (and cut symbols) in the terms produced by the symbolic execution of the real
// function; what remains is ground floating-point / real arithmetic that the solver evaluates with
// its own IEEE-754 implementation.

import (
	"fmt"
	"os"
	"path/filepath"
	"strings"
	"sync"
	"time"
)

type CaseGoal struct {
	Name string
	Kind string
	Cond *Term
}

type CaseInst struct {
	Sub   map[*Term]*Term
	Label string
}

type caseFail struct {
	Goal   int
	Label  string
	Status string
}

type CaseResult struct {
	Instances   int
	SolverCalls int
	BySimplifier int
	Fails       []caseFail
	Vacuous     []string
	Seconds     float64
	ToolErr     string
	Skipped     []bool // goals that still contain free symbols under the stage's substitution
}

const caseBatch = 300

// RunCases checks every goal on every instance. assumes are conjoined as hypotheses (they must be
// satisfiable on every instance: a vacuity check-sat is issued per instance when they do not
// simplify to true).
func RunCases(prelude string, assumes []*Term, goals []CaseGoal, insts []CaseInst, dir, name string, timeoutS int) CaseResult {
	t0 := time.Now()
	res := CaseResult{Instances: len(insts)}
	type batchOut struct {
		fails  []caseFail
		vac    []string
		calls  int
		simp   int
		tool   string
	}
	// goals whose terms are not closed by this stage's substitution belong to another stage
	res.Skipped = make([]bool, len(goals))
	if len(insts) > 0 {
		termMu.Lock()
		termMark()
		for gi, g := range goals {
			x := Subst(g.Cond, insts[0].Sub, map[*Term]*Term{})
			fs := map[*Term]bool{}
			FreeSyms(x, fs, map[*Term]bool{})
			if len(fs) > 0 {
				res.Skipped[gi] = true
				if os.Getenv("GOVC_DEBUG") != "" {
					var ns []string
					for f := range fs {
						ns = append(ns, f.Name)
					}
					fmt.Fprintf(os.Stderr, "skipped goal %s: free symbols %v\n", g.Name, ns)
				}
			}
		}
		termRelease()
		termMu.Unlock()
	}
	skipped := res.Skipped
	nb := (len(insts) + caseBatch - 1) / caseBatch
	outs := make([]batchOut, nb)
	var wg sync.WaitGroup
	sem := make(chan struct{}, 16)
	for b := 0; b < nb; b++ {
		lo, hi := b*caseBatch, (b+1)*caseBatch
		if hi > len(insts) {
			hi = len(insts)
		}
		// build the script for this batch (term operations are serialised)
		termMu.Lock()
		termMark()
		var sb strings.Builder
		sb.WriteString(scriptHead)
		sb.WriteString(filterPrelude(prelude, ""))
		sb.WriteString(structSortDeclsExtra(prelude))
		type expect struct {
			inst int
			goal int // -1 = vacuity check (expect sat)
		}
		var exps []expect
		simp := 0
		for i := lo; i < hi; i++ {
			memo := map[*Term]*Term{}
			var as []*Term
			for _, a := range assumes {
				x := Subst(a, insts[i].Sub, memo)
				if !x.IsTrue() {
					as = append(as, x)
				}
			}
			p := NewPrinter()
			var gs []*Term
			for gi, g := range goals {
				if skipped[gi] {
					gs = append(gs, True)
					continue
				}
				gs = append(gs, Subst(g.Cond, insts[i].Sub, memo))
			}
			p.Prepare(append(append([]*Term(nil), as...), gs...)...)
			var body strings.Builder
			for _, a := range as {
				fmt.Fprintf(&body, "(assert %s)\n", p.Emit(a))
			}
			if len(as) > 0 {
				body.WriteString("(check-sat)\n")
				exps = append(exps, expect{i, -1})
			}
			for gi, g := range gs {
				if skipped[gi] {
					continue
				}
				if g.IsTrue() {
					simp++
					continue
				}
				fmt.Fprintf(&body, "(push)\n(assert (not %s))\n(check-sat)\n(pop)\n", p.Emit(g))
				exps = append(exps, expect{i, gi})
			}
			sb.WriteString("(push)\n")
			sb.WriteString(p.Decls(nil))
			sb.WriteString(p.Defs())
			sb.WriteString(body.String())
			sb.WriteString("(pop)\n")
		}
		script := sb.String()
		termRelease()
		termMu.Unlock()
		outs[b].simp = simp
		if len(exps) == 0 {
			continue
		}
		wg.Add(1)
		sem <- struct{}{}
		go func(b int, script string, exps []expect) {
			defer wg.Done()
			defer func() { <-sem }()
			bname := fmt.Sprintf("%s.batch%04d", name, b)
			var sts []string
			var out string
			for _, sv := range []string{"z3-5", "z3-4"} {
				sts, out, _ = RunBatch(script, dir, bname, timeoutS, sv)
				if len(sts) == len(exps) && !strings.Contains(out, "(error") {
					break
				}
			}
			outs[b].calls = len(exps)
			if len(sts) != len(exps) || strings.Contains(out, "(error") {
				outs[b].tool = fmt.Sprintf("batch %s: solver answered %d of %d queries: %s", bname, len(sts), len(exps), truncate(out, 600))
				return
			}
			for k, e := range exps {
				if e.goal < 0 {
					if sts[k] != "sat" {
						outs[b].vac = append(outs[b].vac, insts[e.inst].Label)
					}
					continue
				}
				if sts[k] != "unsat" {
					outs[b].fails = append(outs[b].fails, caseFail{Goal: e.goal, Label: insts[e.inst].Label, Status: sts[k]})
				}
			}
		}(b, script, exps)
	}
	wg.Wait()
	for _, o := range outs {
		res.Fails = append(res.Fails, o.fails...)
		res.Vacuous = append(res.Vacuous, o.vac...)
		res.SolverCalls += o.calls
		res.BySimplifier += o.simp
		if o.tool != "" && res.ToolErr == "" {
			res.ToolErr = o.tool
		}
	}
	res.Seconds = time.Since(t0).Seconds()
	_ = filepath.Join
	return res
}

// packObject builds the bytes of an object from metric codes according to the representation.
func packObject(rp *Repr, codes map[string]int) []uint8 {
	b := make([]uint8, rp.NBytes)
	for _, f := range rp.Fields {
		code, ok := codes[f.Metric]
		if !ok {
			continue
		}
		w := 0
		for _, p := range f.Pieces {
			w += p.Hi - p.Lo + 1
		}
		pos := w
		for _, p := range f.Pieces {
			pw := p.Hi - p.Lo + 1
			pos -= pw
			part := (code >> uint(pos)) & ((1 << uint(pw)) - 1)
			b[p.Byte] |= uint8(part << uint(p.Lo))
		}
	}
	return b
}

func (rp *Repr) Field(m string) *ReprField {
	for i := range rp.Fields {
		if rp.Fields[i].Metric == m {
			return &rp.Fields[i]
		}
	}
	return nil
}

// enumCodes enumerates all code assignments of the given metrics (cartesian product).
func enumCodes(rp *Repr, metrics []string, f func(map[string]int)) {
	cur := map[string]int{}
	var rec func(i int)
	rec = func(i int) {
		if i == len(metrics) {
			cp := make(map[string]int, len(cur))
			for k, v := range cur {
				cp[k] = v
			}
			f(cp)
			return
		}
		n := len(rp.Field(metrics[i]).Codes)
		for c := 0; c < n; c++ {
			cur[metrics[i]] = c
			rec(i + 1)
		}
	}
	rec(0)
}

func objLabel(rp *Repr, codes map[string]int, order []string) string {
	var parts []string
	for _, m := range order {
		if c, ok := codes[m]; ok {
			parts = append(parts, m+":"+rp.Field(m).Codes[c])
		}
	}
	return strings.Join(parts, "/")
}

// receiverSyms returns the byte symbols of the (value or pointer) receiver of a run.
func receiverSyms(fr *FuncRun) []*Term {
	fn := fr.Ex.fn
	v := fr.Params[fn.Params[0].Name()]
	if p, ok := v.(*PtrV); ok {
		v = fr.Entry.mem[p.A]
	}
	sv := v.(*StructV)
	var r []*Term
	for _, f := range sv.Fields {
		r = append(r, f.(*Term))
	}
	return r
}

func objSub(syms []*Term, bytes []uint8) map[*Term]*Term {
	m := map[*Term]*Term{}
	for i, s := range syms {
		m[s] = BVLit(uint64(bytes[i]), 8)
	}
	return m
}
