package main

import (
	"fmt"
	"strings"

	"golang.org/x/tools/go/ssa"
)

var v3Base = []string{"AV", "AC", "PR", "UI", "S", "C", "I", "A"}
var v3Temporal = []string{"E", "RL", "RC"}
var v3Modified = []string{"MAV", "MAC", "MPR", "MUI", "MS", "MC", "MI", "MA"}

func specApp(name string, fr *FuncRun) *Term {
	// (name <receiver struct term>) exactly as contract evaluation builds it
	fn := fr.Ex.fn
	v := fr.Params[fn.Params[0].Name()]
	if p, ok := v.(*PtrV); ok {
		v = fr.Entry.mem[p.A]
	}
	return App(name, preludeSort(name), structTerm(v.(*StructV)))
}

func tenthOf(k int) *Term { return App("tenth", SF64, IntLit(int64(k))) }

// v3Stages returns the case-split stages of the v3.x scoring functions; match selects the post
// clauses that are goals (C03: spec; C11: one_decimal_in_scale, rating_accepts).
func v3Stages(v string, match string) []stage {
	T := "CVSS" + v
	cutHook := func(ex *Exec, call *ssa.Call, name string, ord int, res Value, pc *Term, st *State) Value {
		if name == "roundup" && ex.depth == 0 && (ord == 1 || ord == 3) {
			return ex.vc.Fresh(fmt.Sprintf("cut.inner_roundup%d", ord), SF64)
		}
		return nil
	}
	// zeroPC: the path condition of EnvironmentalScore's "return 0" (modified impact <= 0), the second
	// cut of the outer stage; nil when the body does not have exactly one such return.
	zeroPC := func(fr *FuncRun) *Term {
		var z *Term
		for _, re := range fr.Ex.rets {
			if len(re.vals) != 1 {
				return nil
			}
			t, ok := re.vals[0].(*Term)
			if !ok {
				return nil
			}
			if t.Op == "fp" && t.F == 0 && !re.pc.IsTrue() && !re.pc.IsFalse() {
				if z != nil {
					return nil
				}
				z = re.pc
			}
		}
		return z
	}
	envS2x := func(fr *FuncRun, sc *stageCtx, open bool) []CaseInst {
		var out []CaseInst
		inner := specApp("envInner"+v+"K", fr)
		zspec := specApp("envZero"+v, fr)
		zc := zeroPC(fr)
		if !open {
			zc = nil
		}
		type famT struct {
			insts []CaseInst
			z     *Term
			tag   string
		}
		var fams []famT
		if zc != nil {
			// both cuts: (zero flag, inner value) x E x RL x RC, every other bit of the object open
			fams = append(fams, famT{objInsts(fr, sc, v3Temporal, nil), False, ""}, famT{objInsts(fr, sc, v3Temporal, nil), True, "/zero-impact"})
		} else {
			// fallback: two representatives of the metrics the outer stage does not enumerate
			fams = append(fams, famT{objInstsGround(fr, sc, v3Temporal, nil), nil, ""},
				famT{objInstsGround(fr, sc, v3Temporal, fixedAt(sc.rp, []string{"C", "I", "A"}, "N")), nil, "/zero-impact"})
		}
		for _, fam := range fams {
			for _, base := range fam.insts {
				for k := 0; k <= 100; k++ {
					sub := map[*Term]*Term{}
					for a, b := range base.Sub {
						sub[a] = b
					}
					for _, c := range sc.calls["roundup"] {
						if s, ok := c.sub.(*Term); ok {
							sub[s] = tenthOf(k)
						}
					}
					sub[inner] = IntLit(int64(k))
					if fam.z != nil {
						sub[zc] = fam.z
						sub[zspec] = fam.z
					}
					out = append(out, CaseInst{Sub: sub, Label: fmt.Sprintf("inner=%d.%d/%s%s", k/10, k%10, base.Label, fam.tag)})
				}
			}
		}
		return out
	}
	envS2 := func(fr *FuncRun, sc *stageCtx) []CaseInst { return envS2x(fr, sc, true) }
	envS2ground := func(fr *FuncRun, sc *stageCtx) []CaseInst { return envS2x(fr, sc, false) }
	envS1x := func(fr *FuncRun, sc *stageCtx, equalReq bool) []CaseInst {
		var out []CaseInst
		inner := specApp("envInner"+v+"K", fr)
		for _, base := range objInsts(fr, sc, append(append([]string{}, v3Base...), "CR", "IR", "AR"), fixedAt(sc.rp, append(append([]string{}, v3Modified...), v3Temporal...), "X")) {
			if equalReq {
				// quick tier: the classes with CR = IR = AR (X, L, M, H)
				req := func(m string) string {
					i := strings.Index(base.Label, m+":")
					if i < 0 {
						return ""
					}
					return base.Label[i+len(m)+1 : i+len(m)+2]
				}
				// ... and, for three representative exploitability classes, all 64 requirement
				// triples (a requirement weight applied to the wrong impact metric shows only there)
				expl := req("AV") + req("AC") + req("PR") + req("UI")
				if (req("CR") != req("IR") || req("IR") != req("AR")) && expl != "NLNN" && expl != "PHHR" && expl != "ALLN" {
					continue
				}
			}
			sub := base.Sub
			memo := map[*Term]*Term{}
			innerC := Subst(inner, base.Sub, memo)
			for _, c := range sc.calls["roundup"] {
				if s, ok := c.sub.(*Term); ok {
					sub[s] = App("tenth", SF64, innerC)
				}
			}
			out = append(out, CaseInst{Sub: sub, Label: base.Label})
		}
		return out
	}
	envS1 := func(fr *FuncRun, sc *stageCtx) []CaseInst { return envS1x(fr, sc, false) }
	envS1quick := func(fr *FuncRun, sc *stageCtx) []CaseInst { return envS1x(fr, sc, true) }
	envS1Extra := func(fr *FuncRun, sc *stageCtx) ([]*Term, []CaseGoal) {
		var gs []CaseGoal
		inner := specApp("envInner"+v+"K", fr)
		for _, c := range sc.calls["roundup"] {
			if _, ok := c.sub.(*Term); ok {
				gs = append(gs, CaseGoal{Name: fmt.Sprintf("gocvss%s.(%s).EnvironmentalScore/cut/inner_roundup#%d_equals_spec", v, T, c.ord), Kind: "cut",
					Cond: Implies(c.pc, App("fp.eq", SBool, c.res.(*Term), App("tenth", SF64, inner)))})
			}
		}
		if zc := zeroPC(fr); zc != nil {
			gs = append(gs, CaseGoal{Name: fmt.Sprintf("gocvss%s.(%s).EnvironmentalScore/cut/zero_impact_flag_equals_spec", v, T), Kind: "cut",
				Cond: Eq(zc, specApp("envZero"+v, fr))})
		}
		return nil, gs
	}
	return []stage{
		{Name: "all-S,C,I,A", Pkg: v, Func: "(" + T + ").Impact", Match: match, Space: "4 metrics, 54 combinations",
			Insts: func(fr *FuncRun, sc *stageCtx) []CaseInst { return objInsts(fr, sc, []string{"S", "C", "I", "A"}, nil) }},
		{Name: "all-AV,AC,PR,UI,S", Pkg: v, Func: "(" + T + ").Exploitability", Match: match, Space: "5 metrics, 96 combinations",
			Insts: func(fr *FuncRun, sc *stageCtx) []CaseInst {
				return objInsts(fr, sc, []string{"AV", "AC", "PR", "UI", "S"}, nil)
			}},
		{Name: "all-base", Pkg: v, Func: "(" + T + ").BaseScore", Match: match, Space: "8 base metrics, 2592 combinations",
			Insts: func(fr *FuncRun, sc *stageCtx) []CaseInst { return objInsts(fr, sc, v3Base, nil) }},
		{Name: "cut-base-x-temporal", Pkg: v, Func: "(" + T + ").TemporalScore", Match: match, Space: "BaseScore() result 0.0..10.0 (101 tenths, through BaseScore's contract) x E x RL x RC = 10100",
			Insts: func(fr *FuncRun, sc *stageCtx) []CaseInst {
				var out []CaseInst
				bk := specApp("base"+v+"K", fr)
				rs := sc.calls["("+T+").BaseScore"]
				for _, base := range objInsts(fr, sc, v3Temporal, nil) {
					for k := 0; k <= 100; k++ {
						sub := map[*Term]*Term{}
						for a, b := range base.Sub {
							sub[a] = b
						}
						for _, c := range rs {
							sub[c.res.(*Term)] = tenthOf(k)
						}
						sub[bk] = IntLit(int64(k))
						out = append(out, CaseInst{Sub: sub, Label: fmt.Sprintf("base=%d.%d/%s", k/10, k%10, base.Label)})
					}
				}
				return out
			}},
		{Name: "cut-inner-x-temporal", Pkg: v, Func: "(" + T + ").EnvironmentalScore", Match: match, Opts: RunOpts{OnCall: cutHook}, NoSafetyGoals: true,
			Space: "zero-impact flag (cut) x inner Roundup value 0.0..10.0 (101 tenths, cut) x E x RL x RC = 20200, all other bits of the object open", Insts: envS2},
		{Name: "cut-inner-x-temporal/safety", Pkg: v, Func: "(" + T + ").EnvironmentalScore", Match: `^$`, Opts: RunOpts{OnCall: cutHook},
			Space: "float-to-int conversions of the outer Roundup: inner value (101 tenths, cut) x E x RL x RC on two representative objects (non-zero / zero impact); the inner stage's conversions are goals of the thorough stage", Insts: envS2ground},
		{Name: "all-effective-x-equal-requirements", Pkg: v, Func: "(" + T + ").EnvironmentalScore", Match: match, Opts: RunOpts{OnCall: cutHook}, Tier: "quick",
			Space: "the classes of the inner stage with CR = IR = AR, plus all 64 requirement triples for three exploitability classes (N/L/N/N, P/H/H/R, A/L/L/N): 20088 of the 165888 classes (the thorough tier runs all of them)", Insts: envS1quick, Extra: envS1Extra},
		{Name: "all-effective-x-CR,IR,AR", Pkg: v, Func: "(" + T + ").EnvironmentalScore", Match: match, Opts: RunOpts{OnCall: cutHook}, Tier: "thorough",
			Space: "8 effective base metrics x CR x IR x AR = 165888 (Modified metrics X, lifted by C10)", Insts: envS1, Extra: envS1Extra},
	}
}

func init() {
	trustedFP := append(append([]string{}, trustedCommon...),
		"T3 IEEE-754 binary64, round-to-nearest-even per operation, no FMA contraction (linux/amd64); math.Round/RoundToEven/Floor/Min as documented")
	props["C03"] = &PropDef{
		ID: "C03",
		Custom: func(cc *CheckCtx) {
			for _, v := range []string{"30", "31"} {
				for _, s := range v3Stages(v, `/post/spec$`) {
					// C03 is the equality with the specification itself: the inner environmental stage
					// runs on all 165,888 classes in both tiers (a seeded change that is wrong on 24 of
					// them escaped the quick subset); C11 and C12 keep the subset in their quick tier
					if s.Tier == "quick" {
						continue
					}
					s.Tier = ""
					cc.runStage(s)
				}
			}
			c10v3(cc)
		},
		Trusted: trustedFP,
		Assumptions: []string{
			"lifting from the enumerated representatives (Modified metrics X, unread metrics X) to all 573,308,928,000 objects is the relational obligation set of C10",
			"Impact/Exploitability are compared with the exact real value within 1e-9 (they are unrounded float64 approximations)",
		},
	}
}

// ---------- v2.0 ----------

var negZero = FPLit(negZeroF())

func negZeroF() float64 { z := 0.0; return -z }

// tenthValues: the admissible values of a one-decimal cut k/10 for k in lo..hi, plus -0.0.
func tenthValues(lo, hi int) []struct {
	K int
	V *Term
	L string
} {
	var out []struct {
		K int
		V *Term
		L string
	}
	for k := lo; k <= hi; k++ {
		out = append(out, struct {
			K int
			V *Term
			L string
		}{k, tenthOf(k), fmt.Sprintf("%g", float64(k)/10)})
	}
	out = append(out, struct {
		K int
		V *Term
		L string
	}{0, negZero, "-0.0"})
	return out
}

func cloneSub(m map[*Term]*Term) map[*Term]*Term {
	n := make(map[*Term]*Term, len(m)+4)
	for k, v := range m {
		n[k] = v
	}
	return n
}

func v2Stages(match string) []stage {
	recv := func(fr *FuncRun) *Term { return structTerm(fr.Params["cvss20"].(*StructV)) }
	cutHook := func(ex *Exec, call *ssa.Call, name string, ord int, res Value, pc *Term, st *State) Value {
		if name == "roundTo1Decimal" && ex.depth == 0 && (ord == 1 || ord == 2) {
			return ex.vc.Fresh(fmt.Sprintf("cut.round%d", ord), SF64)
		}
		return nil
	}
	cutOf := func(sc *stageCtx, ord int) (sym *Term, actual *Term) {
		for _, c := range sc.calls["roundTo1Decimal"] {
			if c.ord == ord {
				if s, ok := c.sub.(*Term); ok {
					return s, c.res.(*Term)
				}
			}
		}
		panic(unsupErr{"cut point not found: roundTo1Decimal call ordinal changed"})
	}
	return []stage{
		{Name: "all-C,I,A", Pkg: "20", Func: "(CVSS20).Impact", Match: match, Space: "3 metrics, 27 combinations",
			Insts: func(fr *FuncRun, sc *stageCtx) []CaseInst { return objInsts(fr, sc, []string{"C", "I", "A"}, nil) }},
		{Name: "all-AV,AC,Au", Pkg: "20", Func: "(CVSS20).Exploitability", Match: match, Space: "3 metrics, 27 combinations",
			Insts: func(fr *FuncRun, sc *stageCtx) []CaseInst { return objInsts(fr, sc, []string{"AV", "AC", "Au"}, nil) }},
		{Name: "all-base", Pkg: "20", Func: "(CVSS20).BaseScore", Match: match, Space: "6 base metrics, 729 combinations",
			Insts: func(fr *FuncRun, sc *stageCtx) []CaseInst {
				return objInsts(fr, sc, []string{"AV", "AC", "Au", "C", "I", "A"}, nil)
			}},
		{Name: "cut-base-x-temporal", Pkg: "20", Func: "(CVSS20).TemporalScore", Match: match,
			Space: "BaseScore() result -0.0, 0.0..10.0 (through BaseScore's contract) x E x RL x RC = 102 x 100",
			Insts: func(fr *FuncRun, sc *stageCtx) []CaseInst {
				var out []CaseInst
				rs := sc.calls["(CVSS20).BaseScore"]
				rsym := rs[0].res.(*Term)
				// the callee's relational postcondition is a fact about the (arbitrary) base metrics of
				// the object; on the representative objects of this stage it is taken as given
				calleeRel := App("baseRel20", SBool, recv(fr), App("kof", SInt, rsym))
				for _, base := range objInsts(fr, sc, []string{"E", "RL", "RC"}, nil) {
					for _, tv := range tenthValues(0, 100) {
						sub := cloneSub(base.Sub)
						sub[rsym] = tv.V
						sub[calleeRel] = True
						out = append(out, CaseInst{Sub: sub, Label: "base=" + tv.L + "/" + base.Label})
					}
				}
				return out
			}},
		{Name: "all-AV,AC,Au,C,I,A,CR,IR,AR", Pkg: "20", Func: "(CVSS20).EnvironmentalScore", Match: `/post/spec_adjusted_base$`, Opts: RunOpts{OnCall: cutHook},
			Space: "AV AC Au C I A CR IR AR = 27 x 27 x 64 = 46656 (adjusted base score stage)",
			Insts: func(fr *FuncRun, sc *stageCtx) []CaseInst {
				c1, a1 := cutOf(sc, 1)
				var out []CaseInst
				for _, base := range objInsts(fr, sc, []string{"AV", "AC", "Au", "C", "I", "A", "CR", "IR", "AR"}, nil) {
					sub := base.Sub
					sub[c1] = Subst(a1, base.Sub, map[*Term]*Term{})
					out = append(out, CaseInst{Sub: sub, Label: base.Label})
				}
				return out
			}},
		{Name: "cut-adjbase-x-temporal", Pkg: "20", Func: "(CVSS20).EnvironmentalScore", Match: `/post/spec_adjusted_temporal$`, Opts: RunOpts{OnCall: cutHook},
			Space: "recomputed base -0.2..10.0, -0.0 (cut) x E x RL x RC = 104 x 100",
			Insts: func(fr *FuncRun, sc *stageCtx) []CaseInst {
				c1, _ := cutOf(sc, 1)
				c2, a2 := cutOf(sc, 2)
				var out []CaseInst
				for _, base := range objInsts(fr, sc, []string{"E", "RL", "RC"}, nil) {
					for _, tv := range tenthValues(-2, 100) {
						sub := cloneSub(base.Sub)
						sub[c1] = tv.V
						sub[c2] = Subst(a2, sub, map[*Term]*Term{})
						out = append(out, CaseInst{Sub: sub, Label: "adjbase=" + tv.L + "/" + base.Label})
					}
				}
				return out
			}},
		{Name: "cut-adjtemporal-x-CDP,TD", Pkg: "20", Func: "(CVSS20).EnvironmentalScore", Match: matchFinal(match), Opts: RunOpts{OnCall: cutHook},
			Space: "adjusted temporal -0.2..10.0, -0.0 (cut) x CDP x TD = 104 x 30",
			Insts: func(fr *FuncRun, sc *stageCtx) []CaseInst {
				c2, _ := cutOf(sc, 2)
				var out []CaseInst
				for _, base := range objInsts(fr, sc, []string{"CDP", "TD"}, nil) {
					for _, tv := range tenthValues(-2, 100) {
						sub := cloneSub(base.Sub)
						sub[c2] = tv.V
						out = append(out, CaseInst{Sub: sub, Label: "adjtemporal=" + tv.L + "/" + base.Label})
					}
				}
				return out
			}},
	}
}

// matchFinal maps the generic "spec" selection onto the final-stage clause of v2's EnvironmentalScore.
func matchFinal(match string) string {
	if match == `/post/spec$` {
		return `/post/spec_final$`
	}
	return match
}

func init() {
	trustedFP := append(append([]string{}, trustedCommon...),
		"T3 IEEE-754 binary64, round-to-nearest-even per operation, no FMA contraction (linux/amd64); math.Round/Min as documented")
	props["C05"] = &PropDef{
		ID: "C05",
		Custom: func(cc *CheckCtx) {
			for _, s := range v2Stages(`/post/spec$`) {
				cc.runStage(s)
			}
		},
		Trusted: trustedFP,
		Assumptions: []string{
			"exact ties of round_to_1_decimal: either neighbouring tenth is accepted (relation rnd1); downstream stages are proved for every one-decimal value the upstream stage can produce, -0.0 included",
			"Impact/Exploitability are compared with the exact real value within 1e-9",
			"objects enumerated per stage are representatives (unread metrics ND); v2.0 has no Modified metrics, and the stage functions read only the enumerated fields (frame obligations are part of C10/C14 checks)",
		},
	}
}

func init() {
	trustedFP := append(append([]string{}, trustedCommon...),
		"T3 IEEE-754 binary64, round-to-nearest-even per operation, no FMA contraction (linux/amd64); math.Round/RoundToEven/Floor/Min as documented")
	props["C11"] = &PropDef{
		ID: "C11",
		Custom: func(cc *CheckCtx) {
			m := `/post/(one_decimal_in_scale|rating_accepts)$`
			for _, s := range v2Stages(m) {
				if s.Func == "(CVSS20).Impact" || s.Func == "(CVSS20).Exploitability" {
					continue
				}
				if s.Match != m && s.Match != matchFinal(m) {
					s.Match = `^$` // intermediate v2 environmental stages: only their safety obligations
				}
				cc.runStage(s)
			}
			for _, v := range []string{"30", "31"} {
				for _, s := range v3Stages(v, m) {
					if s.Name == "all-S,C,I,A" || s.Name == "all-AV,AC,PR,UI,S" {
						continue
					}
					cc.runStage(s)
				}
			}
			c11v4(cc)
			c10v3(cc)
			// "that function accepts the value": rating_accepts is stated with the shared scale
			// predicate ratingClass; Rating itself is proved against it (C15's obligations) here too
			for _, p := range []string{"30", "31", "40"} {
				cc.runTask(Task{Pkg: p, Func: "Rating", Match: ``})
			}
		},
		Trusted: trustedFP,
		Assumptions: []string{
			"the one-decimal / range clauses are separate postconditions, independent of the exact weights: a wrong weight breaks C03/C05 but not C11",
			"v2.0 EnvironmentalScore: range -0.2..10.0 as the property states (pinned by C05)",
			"lifting from representatives to all objects: C10 frame obligations",
		},
	}
}

// c10v3: the relational obligations of the v3 scoring functions (dependence on effective values
// only).  C03, C11 and C12 lift their case splits from representatives with Modified metrics X to all
// objects through these obligations, so they discharge them too.
func c10v3(cc *CheckCtx) {
	for _, v := range []string{"30", "31"} {
		T := "CVSS" + v
		cc.runRel(relSpec{Pkg: v, Func: "(" + T + ").BaseScore", Relation: "sameBase" + v, Name: "depends_only_on_base_metrics"})
		cc.runRel(relSpec{Pkg: v, Func: "(" + T + ").Impact", Relation: "sameBase" + v, Name: "depends_only_on_base_metrics"})
		cc.runRel(relSpec{Pkg: v, Func: "(" + T + ").Exploitability", Relation: "sameBase" + v, Name: "depends_only_on_base_metrics"})
		cc.runRel(relSpec{Pkg: v, Func: "(" + T + ").TemporalScore", Relation: "sameBaseTemporal" + v, Name: "depends_only_on_base_and_temporal_weights"})
		cc.runRel(relSpec{Pkg: v, Func: "(" + T + ").EnvironmentalScore", Relation: "sameEffective" + v, Name: "depends_only_on_effective_values"})
	}
}

var c11v4 = func(cc *CheckCtx) {
	// the cut obligations (severity distances) are re-discharged here because this check assumes them
	cc.runScore40(`/post/(one_decimal_in_scale|rating_accepts)$`, true)
	for _, l := range score40Lemmas(cc.W, cc.Tier) {
		cc.runLemma(l)
	}
	cc.runTask(Task{Pkg: "40", Func: "(CVSS40).macroVector", Match: `/post/eq\d$|/safety/`})
}

func init() {
	props["C10"] = &PropDef{
		ID: "C10",
		Custom: func(cc *CheckCtx) {
			c10v3(cc)
			c10v4(cc)
		},
		Trusted: append(append([]string{}, trustedCommon...), "floating-point operations are uninterpreted in these obligations: what is proved holds for every interpretation, in particular IEEE-754"),
		Assumptions: []string{
			"two objects 'have the same effective values' when Modified-or-base codes coincide for the overridable metrics and the remaining scored metrics have the same specification weight (so X and its default are identified)",
		},
	}
}

var c10v4 = func(cc *CheckCtx) {
	cc.runRel40()
	cc.runTask(Task{Pkg: "40", Func: "(CVSS40).macroVector", Match: `/post/eq\d$|/safety/`})
	for _, l := range score40Lemmas(cc.W, cc.Tier) {
		cc.runLemma(l)
	}
}
