package main

import (
	"fmt"
	"go/types"
	"strings"
)

// ---------- symbolic values ----------

type Value interface{}

type Alloc struct {
	ID    int
	Name  string
	Typ   types.Type // type of the stored object
	Heap  bool
	Fresh bool // allocated during the function under analysis
	Const bool // immutable global table
}

type PathElem struct {
	Field int   // >=0: struct field index
	Index *Term // non-nil: array/slice index (Int)
}

type PtrV struct {
	A    *Alloc
	Path []PathElem
}

type NilV struct{ T types.Type }

type StructV struct {
	T      *types.Struct
	Name   string // named type name or ""
	Fields []Value
}

type ArrayV struct {
	Elems []Value // concrete-length Go array
}

// SymArrV is a symbolic backing store (contents of a slice's underlying array).
type SymArrV struct {
	Arr  *Term // (Array Int elem)
	Elem types.Type
	// If GGuard != nil the array equals GBase whenever GGuard is false (guarded in-place writes);
	// used to keep arrays as linear store chains across conditional appends.
	GBase  *Term
	GGuard *Term
}

type SliceV struct {
	Base *Alloc // nil for a nil slice
	Off  *Term
	Len  *Term
	Cap  *Term
	Elem types.Type
}

type TupleV struct{ Elems []Value }

type IfaceV struct {
	Dyn types.Type
	V   Value
}

// CondV is a guarded choice between values that cannot be merged into one term (pointers, slices
// with different backing stores).
type CondV struct {
	Alts []CondAlt
}
type CondAlt struct {
	C *Term
	V Value
}

type State struct {
	mem    map[*Alloc]Value
	allocs *Term // ghost heap-allocation counter (Int)
	owned  *Term // ghost: pool item owned (Bool)
}

func (s *State) Clone() *State {
	n := &State{mem: make(map[*Alloc]Value, len(s.mem)), allocs: s.allocs, owned: s.owned}
	for k, v := range s.mem {
		n.mem[k] = v
	}
	return n
}

// ---------- sorts of Go types ----------

func structName(t types.Type) string {
	if n, ok := t.(*types.Named); ok {
		return n.Obj().Name()
	}
	return ""
}

func sortOfType(t types.Type) string {
	switch u := t.Underlying().(type) {
	case *types.Basic:
		switch {
		case u.Kind() == types.Bool || u.Kind() == types.UntypedBool:
			return SBool
		case u.Kind() == types.Uint8:
			return SBV8
		case u.Kind() == types.Uint16:
			return SBV16
		case u.Kind() == types.Uint32:
			return SBV32
		case u.Kind() == types.Uint64 || u.Kind() == types.Uint || u.Kind() == types.Uintptr:
			return SBV64
		case u.Info()&types.IsInteger != 0:
			return SInt
		case u.Info()&types.IsFloat != 0:
			return SF64
		case u.Info()&types.IsString != 0:
			return SStr
		}
	case *types.Interface:
		if types.Identical(t, types.Universe.Lookup("error").Type()) {
			return SErr
		}
	case *types.Struct:
		if n := structName(t); n != "" {
			return n
		}
	}
	return ""
}

// ---------- merging ----------

func mergeValue(c *Term, a, b Value) Value {
	if c.IsTrue() {
		return a
	}
	if c.IsFalse() {
		return b
	}
	if a == nil {
		return b
	}
	if b == nil {
		return a
	}
	switch x := a.(type) {
	case *Term:
		if y, ok := b.(*Term); ok {
			return Ite(c, x, y)
		}
	case *StructV:
		if y, ok := b.(*StructV); ok && len(x.Fields) == len(y.Fields) {
			if x == y {
				return x
			}
			n := &StructV{T: x.T, Name: x.Name, Fields: make([]Value, len(x.Fields))}
			same := true
			for i := range x.Fields {
				n.Fields[i] = mergeValue(c, x.Fields[i], y.Fields[i])
				if n.Fields[i] != x.Fields[i] {
					same = false
				}
			}
			if same {
				return x
			}
			return n
		}
	case *ArrayV:
		if y, ok := b.(*ArrayV); ok && len(x.Elems) == len(y.Elems) {
			if x == y {
				return x
			}
			n := &ArrayV{Elems: make([]Value, len(x.Elems))}
			for i := range x.Elems {
				n.Elems[i] = mergeValue(c, x.Elems[i], y.Elems[i])
			}
			return n
		}
	case *SymArrV:
		if y, ok := b.(*SymArrV); ok {
			if x.Arr == y.Arr {
				return x
			}
			// y is a guarded update of x's array and its guard is incompatible with c: y already
			// denotes x's array on the paths where c holds
			if y.GGuard != nil && y.GBase == x.Arr && And(c, y.GGuard).IsFalse() {
				return &SymArrV{Arr: y.Arr, Elem: y.Elem}
			}
			if x.GGuard != nil && x.GBase == y.Arr && And(Not(c), x.GGuard).IsFalse() {
				return &SymArrV{Arr: x.Arr, Elem: x.Elem}
			}
			return &SymArrV{Arr: Ite(c, x.Arr, y.Arr), Elem: x.Elem}
		}
	case *TupleV:
		if y, ok := b.(*TupleV); ok && len(x.Elems) == len(y.Elems) {
			n := &TupleV{Elems: make([]Value, len(x.Elems))}
			for i := range x.Elems {
				n.Elems[i] = mergeValue(c, x.Elems[i], y.Elems[i])
			}
			return n
		}
	case *SliceV:
		if y, ok := b.(*SliceV); ok && x.Base == y.Base {
			if x == y {
				return x
			}
			return &SliceV{Base: x.Base, Off: Ite(c, x.Off, y.Off), Len: Ite(c, x.Len, y.Len), Cap: Ite(c, x.Cap, y.Cap), Elem: x.Elem}
		}
	case *PtrV:
		if y, ok := b.(*PtrV); ok && ptrEqual(x, y) {
			return x
		}
	case *NilV:
		if _, ok := b.(*NilV); ok {
			return x
		}
	case *IfaceV:
		if y, ok := b.(*IfaceV); ok && types.Identical(x.Dyn, y.Dyn) {
			return &IfaceV{Dyn: x.Dyn, V: mergeValue(c, x.V, y.V)}
		}
	}
	// generic guarded choice
	var alts []CondAlt
	add := func(g *Term, v Value) {
		if cv, ok := v.(*CondV); ok {
			for _, al := range cv.Alts {
				alts = append(alts, CondAlt{And(g, al.C), al.V})
			}
		} else {
			alts = append(alts, CondAlt{g, v})
		}
	}
	add(c, a)
	add(Not(c), b)
	return &CondV{Alts: alts}
}

func ptrEqual(a, b *PtrV) bool {
	if a.A != b.A || len(a.Path) != len(b.Path) {
		return false
	}
	for i := range a.Path {
		if a.Path[i].Field != b.Path[i].Field || a.Path[i].Index != b.Path[i].Index {
			return false
		}
	}
	return true
}

// mapCond applies f to v, distributing over guarded choices; results are merged again.
func mapCond(v Value, f func(Value) Value) Value {
	cv, ok := v.(*CondV)
	if !ok {
		return f(v)
	}
	var res Value
	for i := len(cv.Alts) - 1; i >= 0; i-- {
		r := f(cv.Alts[i].V)
		if res == nil {
			res = r
		} else {
			res = mergeValue(cv.Alts[i].C, r, res)
		}
	}
	return res
}

// mapCondG is mapCond with the guard of each alternative passed to f (for obligations that only
// concern that alternative).
func mapCondG(v Value, f func(g *Term, v Value) Value) Value {
	cv, ok := v.(*CondV)
	if !ok {
		return f(True, v)
	}
	var res Value
	for i := len(cv.Alts) - 1; i >= 0; i-- {
		r := f(cv.Alts[i].C, cv.Alts[i].V)
		if res == nil {
			res = r
		} else {
			res = mergeValue(cv.Alts[i].C, r, res)
		}
	}
	return res
}

func mergeState(c *Term, a, b *State) *State {
	if a == b {
		return a
	}
	n := &State{mem: make(map[*Alloc]Value, len(a.mem))}
	for k, va := range a.mem {
		if vb, ok := b.mem[k]; ok {
			if va == vb {
				n.mem[k] = va
			} else {
				n.mem[k] = mergeValue(c, va, vb)
			}
		} else {
			n.mem[k] = va
		}
	}
	for k, vb := range b.mem {
		if _, ok := a.mem[k]; !ok {
			n.mem[k] = vb
		}
	}
	n.allocs = Ite(c, a.allocs, b.allocs)
	n.owned = Ite(c, a.owned, b.owned)
	return n
}

func describeValue(v Value) string {
	switch x := v.(type) {
	case *Term:
		return "term:" + x.Sort
	case *StructV:
		return "struct " + x.Name
	case *PtrV:
		return fmt.Sprintf("ptr(%s%v)", x.A.Name, x.Path)
	case *SliceV:
		return "slice"
	case *TupleV:
		var p []string
		for _, e := range x.Elems {
			p = append(p, describeValue(e))
		}
		return "tuple(" + strings.Join(p, ",") + ")"
	case *CondV:
		return "cond"
	case *ArrayV:
		return fmt.Sprintf("array[%d]", len(x.Elems))
	case *SymArrV:
		return "symarr"
	case *IfaceV:
		return "iface"
	case *NilV:
		return "nil"
	case nil:
		return "<nil>"
	}
	return fmt.Sprintf("%T", v)
}
