package main

// C12 for v4.0 Score.  After the cut of C04, Score is a function S(MacroVector, distances) on the
// main path.  A one-step increase of one metric changes the (level, distance) of exactly one EQ group
// (EQ3/EQ6 jointly).  The realizable transitions of each group are enumerated with the solver from the
// specification functions (no hand-written oracle); monotonicity is then checked on every abstract
// state and every realizable transition by ground evaluation of the implementation's terms.

import (
	"fmt"
	"path/filepath"
	"regexp"
	"strings"
)

type grpState struct {
	L1, L2 int // level (for EQ3/EQ6: eq3, eq6)
	D      int
}

type grpDef struct {
	Name    string
	Metrics []string
	Level   func(obj string) string // SMT conjunction fixing the level of object obj
	Dist    string
	States  []grpState
}

func mono40Groups() []grpDef {
	lv := func(f string) func(string, int) string {
		return func(o string, l int) string { return fmt.Sprintf("(= (%s %s) %d)", f, o, l) }
	}
	_ = lv
	var gs []grpDef
	mk := func(name string, metrics []string, dist string, states []grpState) {
		gs = append(gs, grpDef{Name: name, Metrics: metrics, Dist: dist, States: states})
	}
	var s1, s2, s4, s36, s5 []grpState
	for l := 0; l <= 2; l++ {
		for d := 0; d <= maxDist40("dist1_40", [6]int{l, 0, 0, 0, 0, 0}); d++ {
			s1 = append(s1, grpState{l, 0, d})
		}
		for d := 0; d <= maxDist40("dist4_40", [6]int{0, 0, 0, l, 0, 0}); d++ {
			s4 = append(s4, grpState{l, 0, d})
		}
		s5 = append(s5, grpState{l, 0, 0})
	}
	for l := 0; l <= 1; l++ {
		for d := 0; d <= maxDist40("dist2_40", [6]int{0, l, 0, 0, 0, 0}); d++ {
			s2 = append(s2, grpState{l, 0, d})
		}
	}
	for _, p := range [][2]int{{0, 0}, {0, 1}, {1, 0}, {1, 1}, {2, 1}} {
		for d := 0; d <= maxDist40("dist36_40", [6]int{0, 0, p[0], 0, 0, p[1]}); d++ {
			s36 = append(s36, grpState{p[0], p[1], d})
		}
	}
	mk("EQ1", []string{"AV", "PR", "UI"}, "dist1_40", s1)
	mk("EQ2", []string{"AC", "AT"}, "dist2_40", s2)
	mk("EQ3EQ6", []string{"VC", "VI", "VA", "CR", "IR", "AR"}, "dist36_40", s36)
	mk("EQ4", []string{"SC", "SI", "SA"}, "dist4_40", s4)
	mk("EQ5", []string{"E"}, "", s5)
	return gs
}

var scored40 = []string{"AV", "PR", "UI", "AC", "AT", "VC", "VI", "VA", "CR", "IR", "AR", "SC", "SI", "SA", "E"}

func grpStateSMT(g grpDef, o string, s grpState) string {
	var cs []string
	switch g.Name {
	case "EQ1":
		cs = append(cs, fmt.Sprintf("(= (mveq1_40 %s) %d)", o, s.L1))
	case "EQ2":
		cs = append(cs, fmt.Sprintf("(= (mveq2_40 %s) %d)", o, s.L1))
	case "EQ4":
		cs = append(cs, fmt.Sprintf("(= (mveq4_40 %s) %d)", o, s.L1))
	case "EQ5":
		cs = append(cs, fmt.Sprintf("(= (mveq5_40 %s) %d)", o, s.L1))
	case "EQ3EQ6":
		cs = append(cs, fmt.Sprintf("(= (mveq3_40 %s) %d)", o, s.L1), fmt.Sprintf("(= (mveq6_40 %s) %d)", o, s.L2))
	}
	if g.Dist != "" {
		cs = append(cs, fmt.Sprintf("(= (%s %s) %d)", g.Dist, o, s.D))
	}
	return "(and " + strings.Join(cs, " ") + ")"
}

// realizableTransitions asks the solver, for every pair of abstract states of a group, whether some
// pair of well-formed objects (a, b), b = a with one metric of the group one step more severe and all
// other scored metrics equal, realises it.
func (cc *CheckCtx) realizableTransitions(g grpDef) (map[[2]int]bool, bool) {
	prelude, _, _ := cc.W.PreludeFor("40")
	var sb strings.Builder
	sb.WriteString(scriptHead)
	sb.WriteString(filterPrelude(prelude, ""))
	sb.WriteString("(declare-const a CVSS40)\n(declare-const b CVSS40)\n(assert (wf40 a))\n(assert (wf40 b))\n(assert (not (noImpact40 a)))\n")
	var steps []string
	for _, m := range g.Metrics {
		cs := []string{fmt.Sprintf("(= (s40_%s b) (- (s40_%s a) 1))", m, m)}
		for _, o := range scored40 {
			if o != m {
				cs = append(cs, fmt.Sprintf("(= (s40_%s b) (s40_%s a))", o, o))
			}
		}
		steps = append(steps, "(and "+strings.Join(cs, " ")+")")
	}
	fmt.Fprintf(&sb, "(assert (or %s))\n", strings.Join(steps, " "))
	type q struct{ i, j int }
	var qs []q
	for i, s := range g.States {
		for j, t := range g.States {
			fmt.Fprintf(&sb, "(push)\n(assert %s)\n(assert %s)\n(check-sat)\n(pop)\n", grpStateSMT(g, "a", s), grpStateSMT(g, "b", t))
			qs = append(qs, q{i, j})
		}
	}
	sts, out, _ := RunBatch(sb.String(), filepath.Join(smtOutDir, "mono40"), "transitions_"+g.Name, 600, "z3-5")
	if len(sts) != len(qs) || strings.Contains(out, "(error") {
		return nil, false
	}
	res := map[[2]int]bool{}
	for k, st := range sts {
		switch st {
		case "sat":
			res[[2]int{qs[k].i, qs[k].j}] = true
		case "unsat":
		default:
			return nil, false // an undecided transition would make the enumeration incomplete
		}
	}
	return res, true
}

func (cc *CheckCtx) runMono40() {
	w := cc.W
	key := "40.(*CVSS40).Score"
	cc.Funcs[key] = true
	mvs := w.validMacroVectors()
	idx := map[[6]int]int{}
	runs := make([]*FuncRun, len(mvs))
	for i, e := range mvs {
		idx[e] = i
		var rv []Value
		for _, x := range e {
			rv = append(rv, IntLit(int64(x)))
		}
		fr := w.RunFunc("40", "(*CVSS40).Score", RunOpts{ConcreteRet: map[string][]Value{"(CVSS40).macroVector": rv}, NoSafety: true, SkipPost: true, FreshBase: i * 100})
		if fr.Err != "" {
			cc.funcErr("40", "(*CVSS40).Score", fr.Err)
			return
		}
		runs[i] = fr
	}
	cc.noteWarn(runs[0])
	groups := mono40Groups()
	trans := make([]map[[2]int]bool, len(groups))
	ntrans := 0
	for gi, g := range groups {
		t, ok := cc.realizableTransitions(g)
		if !ok {
			cc.ToolErr = append(cc.ToolErr, "could not enumerate the realizable transitions of "+g.Name)
			return
		}
		trans[gi] = t
		ntrans += len(t)
		r := ObResult{Name: "C12/v4/realizable_transitions_enumerated/" + g.Name, Kind: "enumeration", Status: "proved", Solver: "z3-5.1.0", Pkg: "40"}
		cc.Results = append(cc.Results, r)
	}
	cc.Extra["v4_group_transitions"] = ntrans
	// result term of a run on the main path with the cut symbols replaced
	value := func(i int, d [4]int) *Term {
		fr := runs[i]
		sub := map[*Term]*Term{}
		for k, dn := range distNames {
			if c := fr.Ex.cutRegs[distCut[dn]]; c != nil {
				sub[c] = FPLit(float64(d[k]))
			}
		}
		if sc := shortcutPC(fr); sc != nil {
			for _, re := range fr.Ex.rets {
				if re.pc == sc {
					sub[re.pc] = False
				} else if !re.pc.IsTrue() {
					sub[re.pc] = True
				}
			}
		}
		return Subst(fr.RetVals[0].(*Term), sub, map[*Term]*Term{})
	}
	gsym := Sym("mono40!goal", SBool)
	goals := []CaseGoal{{Name: "gocvss40.(*CVSS40).Score/mono/more_severe_not_lower", Kind: "mono", Cond: gsym}}
	var insts []CaseInst
	type pairMeta struct {
		i, j, g int
		e, e2   [6]int
		d, d2   [4]int
	}
	metas := map[string]pairMeta{}
	termMu.Lock()
	stateIdx := func(g grpDef, e [6]int, d [4]int) int {
		var s grpState
		switch g.Name {
		case "EQ1":
			s = grpState{e[0], 0, d[0]}
		case "EQ2":
			s = grpState{e[1], 0, d[1]}
		case "EQ3EQ6":
			s = grpState{e[2], e[5], d[2]}
		case "EQ4":
			s = grpState{e[3], 0, d[3]}
		case "EQ5":
			s = grpState{e[4], 0, 0}
		}
		for i, x := range g.States {
			if x == s {
				return i
			}
		}
		return -1
	}
	apply := func(g grpDef, e [6]int, d [4]int, t grpState) ([6]int, [4]int) {
		switch g.Name {
		case "EQ1":
			e[0], d[0] = t.L1, t.D
		case "EQ2":
			e[1], d[1] = t.L1, t.D
		case "EQ3EQ6":
			e[2], e[5], d[2] = t.L1, t.L2, t.D
		case "EQ4":
			e[3], d[3] = t.L1, t.D
		case "EQ5":
			e[4] = t.L1
		}
		return e, d
	}
	heads := cc.Tier != "thorough"
	for i, e := range mvs {
		var rec func(k int, d [4]int)
		rec = func(k int, d [4]int) {
			if k == 4 {
				va := value(i, d)
				for gi, g := range groups {
					si := stateIdx(g, e, d)
					if si < 0 {
						continue
					}
					for tj, t := range g.States {
						if !trans[gi][[2]int{si, tj}] {
							continue
						}
						e2, d2 := apply(g, e, d, t)
						j, ok := idx[e2]
						if !ok {
							continue
						}
						vb := value(j, d2)
						lbl := fmt.Sprintf("mv=%s d=%v  ->  %s: mv=%s d=%v", mvLabel(e), d, g.Name, mvLabel(e2), d2)
						metas[lbl] = pairMeta{i, j, gi, e, e2, d, d2}
						insts = append(insts, CaseInst{Sub: map[*Term]*Term{gsym: App("fp.leq", SBool, va, vb)}, Label: lbl})
					}
				}
				return
			}
			hi := maxDist40(distNames[k], e)
			for x := 0; x <= hi; x++ {
				if heads && x != 0 && x != hi {
					continue // quick tier: the corners of the distance box of each MacroVector
				}
				d[k] = x
				rec(k+1, d)
			}
		}
		rec(0, [4]int{})
	}
	termMu.Unlock()
	res := RunCases(runs[0].Prelude, nil, goals, insts, filepath.Join(smtOutDir, "cases"), "mono40", 1800)
	cc.Instances += res.Instances
	cc.Exhaustive = true
	if res.ToolErr != "" {
		cc.ToolErr = append(cc.ToolErr, res.ToolErr)
	}
	space := "all 52,650 (MacroVector, distance tuple) states x realizable one-step transitions of one EQ group"
	if heads {
		space = "the corners of the distance box of each of the 270 MacroVectors (every distance 0 or maximal) x realizable one-step transitions of one EQ group; the thorough tier covers all 52,650 states"
	}
	stages, _ := cc.Extra["case_split_stages"].([]interface{})
	stages = append(stages, map[string]interface{}{"stage": key + "/abstract-state-transitions", "domain": space, "instances": res.Instances, "solver_queries": res.SolverCalls, "seconds": res.Seconds, "exhaustive": true})
	cc.Extra["case_split_stages"] = stages
	if len(insts) > 0 {
		cc.Samples = append(cc.Samples, map[string]interface{}{"function": key, "pair": insts[int(cc.Seed%int64(len(insts))+int64(len(insts)))%len(insts)].Label})
	}
	r := ObResult{Name: goals[0].Name + "[abstract states x group transitions]", Kind: "mono/case-split", Func: "(*CVSS40).Score", Pkg: "40", Solver: "z3(ground evaluation)", Seconds: res.Seconds}
	if len(res.Fails) == 0 && res.ToolErr == "" && !res.Skipped[0] && len(insts) > 0 {
		r.Status = "proved"
	} else if len(res.Fails) == 0 {
		r.Status = "undischarged"
		r.Output = res.ToolErr
	} else {
		r.Status = "refuted"
		var ls []string
		for i, f := range res.Fails {
			if i < 8 {
				ls = append(ls, f.Label+" ("+f.Status+")")
			}
		}
		r.Output = fmt.Sprintf("%d of %d transitions decrease the score, e.g. %s", len(res.Fails), res.Instances, strings.Join(ls, "; "))
		// witness: a concrete pair of objects realising a failing transition, replayed on the real code
		for i, f := range res.Fails {
			if i >= 6 {
				break
			}
			m, ok := metas[f.Label]
			if !ok {
				continue
			}
			a, b, ok := cc.witness40(groups, m.g, m.e, m.d, m.e2, m.d2)
			if !ok {
				continue
			}
			inA := CaseInst{Label: f.Label + " less severe", Sub: objSub(receiverSyms(runs[m.i]), a)}
			inB := CaseInst{Label: f.Label + " more severe", Sub: objSub(receiverSyms(runs[m.j]), b)}
			cc.replayPair2(runs[m.i], runs[m.j], inA, inB, &r)
			if r.Replay != nil && r.Replay.Confirmed {
				break
			}
		}
	}
	cc.Results = append(cc.Results, r)
}

// witness40 asks the solver for two well-formed objects realising the transition (e,d) -> (e2,d2) of
// group g by one one-step increase of a metric of that group.
func (cc *CheckCtx) witness40(groups []grpDef, g int, e [6]int, d [4]int, e2 [6]int, d2 [4]int) ([]uint8, []uint8, bool) {
	prelude, _, _ := cc.W.PreludeFor("40")
	var sb strings.Builder
	sb.WriteString(scriptHead)
	sb.WriteString(filterPrelude(prelude, ""))
	sb.WriteString("(declare-const a CVSS40)\n(declare-const b CVSS40)\n(assert (wf40 a))\n(assert (wf40 b))\n(assert (not (noImpact40 a)))\n")
	var steps []string
	for _, m := range groups[g].Metrics {
		cs := []string{fmt.Sprintf("(= (s40_%s b) (- (s40_%s a) 1))", m, m)}
		for _, o := range scored40 {
			if o != m {
				cs = append(cs, fmt.Sprintf("(= (s40_%s b) (s40_%s a))", o, o))
			}
		}
		steps = append(steps, "(and "+strings.Join(cs, " ")+")")
	}
	fmt.Fprintf(&sb, "(assert (or %s))\n", strings.Join(steps, " "))
	st := func(gd grpDef, e [6]int, d [4]int) grpState {
		switch gd.Name {
		case "EQ1":
			return grpState{e[0], 0, d[0]}
		case "EQ2":
			return grpState{e[1], 0, d[1]}
		case "EQ3EQ6":
			return grpState{e[2], e[5], d[2]}
		case "EQ4":
			return grpState{e[3], 0, d[3]}
		}
		return grpState{e[4], 0, 0}
	}
	for _, gd := range groups {
		fmt.Fprintf(&sb, "(assert %s)\n(assert %s)\n", grpStateSMT(gd, "a", st(gd, e, d)), grpStateSMT(gd, "b", st(gd, e2, d2)))
	}
	si := structSorts["CVSS40"]
	if si == nil {
		return nil, nil, false
	}
	sb.WriteString("(check-sat)\n(get-value (")
	for _, o := range []string{"a", "b"} {
		for _, f := range si.Fields {
			fmt.Fprintf(&sb, "(CVSS40.%s %s) ", f, o)
		}
	}
	sb.WriteString("))\n")
	r := Solve(sb.String(), filepath.Join(smtOutDir, "mono40"), "witness_"+mvLabel(e)+"_"+mvLabel(e2), 60, []string{"z3-5"})
	if r.Status != "sat" {
		return nil, nil, false
	}
	re := regexp.MustCompile(`\(\(CVSS40\.(\w+) (a|b)\)\s+#x([0-9a-fA-F]{2})\)`)
	vals := map[string]uint8{}
	for _, m := range re.FindAllStringSubmatch(r.Output, -1) {
		var x uint8
		fmt.Sscanf(m[3], "%x", &x)
		vals[m[2]+"."+m[1]] = x
	}
	var a, b []uint8
	for _, f := range si.Fields {
		va, oka := vals["a."+f]
		vb, okb := vals["b."+f]
		if !oka || !okb {
			return nil, nil, false
		}
		a, b = append(a, va), append(b, vb)
	}
	return a, b, true
}
