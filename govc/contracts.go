package main

// Contracts live in /repo/NN/zz_contracts_verif.go (build tag verif, comment-only) as //@ lines.

import (
	"fmt"
	"os"
	"path/filepath"
	"regexp"
	"strconv"
	"strings"

	"golang.org/x/tools/go/packages"
)

type Directive struct {
	Kind  string // requires, ensures, modifies, inline, invariant, decreases, cases, cut, opt, ...
	Label string
	Loop  int    // for loop directives
	Text  string // rest of the line(s)
	Line  int
}

type FuncContract struct {
	Pkg    string
	Key    string
	Params []string
	Dirs   []Directive
	Pure   bool
}

func (fc *FuncContract) Of(kind string) []Directive {
	var r []Directive
	if fc == nil {
		return r
	}
	for _, d := range fc.Dirs {
		if d.Kind == kind {
			r = append(r, d)
		}
	}
	return r
}
func (fc *FuncContract) Has(kind, text string) bool {
	for _, d := range fc.Of(kind) {
		for _, f := range strings.Fields(d.Text) {
			if f == text {
				return true
			}
		}
	}
	return false
}

type BitPiece struct {
	Byte   int // u<Byte>
	Hi, Lo int
}

type ReprField struct {
	Metric string
	Pieces []BitPiece // most significant first
	Codes  []string   // code i -> value string
}

type Repr struct {
	Type   string
	NBytes int
	Fields []ReprField
	Unused []BitPiece
}

type PkgContracts struct {
	Pkg   string
	File  string
	Funcs map[string]*FuncContract
	Repr  *Repr
	Smt   []string // raw SMT definitions given with "//@ smt" lines (package-local spec vocabulary)
	Lines int
}

var dirRe = regexp.MustCompile(`^([a-z_]+)(?:\[([^\]]*)\])?\s*(.*)$`)
var pieceRe = regexp.MustCompile(`^u(\d+)\[(\d+):(\d+)\]$`)

func parsePieces(s string) ([]BitPiece, error) {
	var ps []BitPiece
	for _, p := range strings.Split(s, "+") {
		m := pieceRe.FindStringSubmatch(p)
		if m == nil {
			return nil, fmt.Errorf("bad bit piece %q", p)
		}
		b, _ := strconv.Atoi(m[1])
		hi, _ := strconv.Atoi(m[2])
		lo, _ := strconv.Atoi(m[3])
		ps = append(ps, BitPiece{b, hi, lo})
	}
	return ps, nil
}

func parseContracts(w *World, key string, p *packages.Package) (*PkgContracts, error) {
	pc := &PkgContracts{Pkg: key, Funcs: map[string]*FuncContract{}}
	file := filepath.Join(w.RepoDir, key, "zz_contracts_verif.go")
	data, err := os.ReadFile(file)
	if err != nil {
		return pc, nil // no contracts for this package (yet)
	}
	pc.File = file
	var cur *FuncContract
	lines := strings.Split(string(data), "\n")
	var pending string
	pendingLine := 0
	flush := func() error {
		if pending == "" {
			return nil
		}
		txt := strings.TrimSpace(pending)
		ln := pendingLine
		pending = ""
		pc.Lines++
		switch {
		case strings.HasPrefix(txt, "func "):
			rest := strings.TrimSpace(txt[5:])
			op := strings.LastIndex(rest, "(")
			cp := strings.LastIndex(rest, ")")
			if op < 0 || cp < op {
				return fmt.Errorf("%s:%d: bad func header %q", file, ln, txt)
			}
			fc := &FuncContract{Pkg: key, Key: strings.TrimSpace(rest[:op])}
			for _, a := range strings.Split(rest[op+1:cp], ",") {
				if a = strings.TrimSpace(a); a != "" {
					fc.Params = append(fc.Params, a)
				}
			}
			if strings.Contains(rest[cp:], "pure") {
				fc.Pure = true
			}
			pc.Funcs[fc.Key] = fc
			cur = fc
		case strings.HasPrefix(txt, "repr "):
			pc.Repr = &Repr{Type: strings.TrimSpace(txt[5:])}
			cur = nil
		case strings.HasPrefix(txt, "field "):
			f := strings.Fields(txt)
			if pc.Repr == nil || len(f) < 5 || f[3] != "codes" {
				return fmt.Errorf("%s:%d: bad field line %q", file, ln, txt)
			}
			ps, err := parsePieces(f[2])
			if err != nil {
				return fmt.Errorf("%s:%d: %v", file, ln, err)
			}
			pc.Repr.Fields = append(pc.Repr.Fields, ReprField{Metric: f[1], Pieces: ps, Codes: f[4:]})
		case strings.HasPrefix(txt, "unused "):
			ps, err := parsePieces(strings.TrimSpace(txt[7:]))
			if err != nil {
				return fmt.Errorf("%s:%d: %v", file, ln, err)
			}
			pc.Repr.Unused = append(pc.Repr.Unused, ps...)
		case strings.HasPrefix(txt, "bytes "):
			n, _ := strconv.Atoi(strings.TrimSpace(txt[6:]))
			pc.Repr.NBytes = n
		case strings.HasPrefix(txt, "smt "):
			pc.Smt = append(pc.Smt, strings.TrimSpace(txt[4:]))
		default:
			if cur == nil {
				return fmt.Errorf("%s:%d: directive outside func: %q", file, ln, txt)
			}
			d := Directive{Line: ln}
			if strings.HasPrefix(txt, "loop ") {
				f := strings.SplitN(txt, " ", 3)
				n, err := strconv.Atoi(f[1])
				if err != nil || len(f) < 3 {
					return fmt.Errorf("%s:%d: bad loop directive %q", file, ln, txt)
				}
				d.Loop = n
				txt = strings.TrimSpace(f[2])
			}
			m := dirRe.FindStringSubmatch(txt)
			if m == nil {
				return fmt.Errorf("%s:%d: cannot parse %q", file, ln, txt)
			}
			d.Kind, d.Label, d.Text = m[1], m[2], strings.TrimSpace(m[3])
			cur.Dirs = append(cur.Dirs, d)
		}
		return nil
	}
	for i, ln := range lines {
		t := strings.TrimSpace(ln)
		if !strings.HasPrefix(t, "//@") {
			continue
		}
		body := strings.TrimPrefix(t, "//@")
		if strings.TrimSpace(body) == "" {
			continue
		}
		if pending != "" && parenBalance(pending) > 0 {
			pending += "\n" + body
			continue
		}
		if err := flush(); err != nil {
			return nil, err
		}
		pending = body
		pendingLine = i + 1
	}
	if err := flush(); err != nil {
		return nil, err
	}
	return pc, nil
}
