package main

// Symbolic execution of go/ssa functions into SMT terms, with state merging at joins,
// loops cut by invariants (or unrolled exactly when their trip count is concrete), modular calls
// through contracts and inlining of pure helpers.

import (
	"fmt"
	"math"
	"os"
	"path/filepath"
	"go/constant"
	"go/token"
	"go/types"
	"math/big"
	"sort"
	"strings"

	"golang.org/x/tools/go/ssa"
)

type Oblig struct {
	Name    string
	Kind    string // safety, pre, post, inv, frame, cut, variant, ...
	Cond    *Term  // must be valid under the assumptions with index < NAssume
	NAssume int
	Hyps    []*Term // snapshot of the active assumptions when the obligation was generated
	Note    string
}

// VC accumulates assumptions and obligations for one top-level function run.
type VC struct {
	W        *World
	Pkg      string
	FnName   string
	Assumes  []*Term
	Obligs   []*Oblig
	fresh    int
	allocN   int
	Inlined  map[string]bool // functions inlined (reported in evidence)
	Modular  map[string]bool // callee contracts assumed
	ModularPosts map[string]map[string]bool // callee key -> labels of the ensures clauses assumed at some call site
	Extern   map[string]bool // external/stdlib functions with built-in contracts
	Unsup    []string
	DefInst  []string         // instantiated defining equations (assume_def)
	chainPC  *Term
	chainIdx int              // index+1 of the current link of a lemma chain in Assumes
	dropped  map[int]bool     // assumptions superseded by a later link of a lemma chain
	CutSyms  map[string]*Term // named cut symbols
	Globals  map[*ssa.Global]*Alloc
	GState   *State // state after package init
	names    map[string]int
	NoSafety bool
}

func (vc *VC) Fresh(hint, srt string) *Term {
	vc.fresh++
	hint = strings.Map(func(r rune) rune {
		if r >= 'a' && r <= 'z' || r >= 'A' && r <= 'Z' || r >= '0' && r <= '9' || r == '_' || r == '.' {
			return r
		}
		return '_'
	}, hint)
	return Sym(fmt.Sprintf("%s!%d", hint, vc.fresh), srt)
}

func (vc *VC) Assume(t *Term) {
	if !t.IsTrue() {
		vc.Assumes = append(vc.Assumes, t)
	}
}

func (vc *VC) Oblige(name, kind string, cond *Term) {
	if vc.NoSafety && kind == "safety" {
		return
	}
	if vc.names == nil {
		vc.names = map[string]int{}
	}
	vc.names[name]++
	if n := vc.names[name]; n > 1 {
		name = fmt.Sprintf("%s#%d", name, n)
	}
	o := &Oblig{Name: name, Kind: kind, Cond: cond, NAssume: len(vc.Assumes)}
	if len(vc.dropped) > 0 {
		for i, a := range vc.Assumes {
			if !vc.dropped[i] {
				o.Hyps = append(o.Hyps, a)
			}
		}
	}
	vc.Obligs = append(vc.Obligs, o)
}

func (vc *VC) NewAlloc(name string, t types.Type, heap bool) *Alloc {
	vc.allocN++
	return &Alloc{ID: vc.allocN, Name: name, Typ: t, Heap: heap, Fresh: true}
}

type Edge struct {
	from, to *ssa.BasicBlock
	pc       *Term
	st       *State
	env      map[ssa.Value]Value // overlay of loop-defined values
}

type RetEdge struct {
	pc   *Term
	st   *State
	vals []Value
}

type loopInfo struct {
	header *ssa.BasicBlock
	blocks map[*ssa.BasicBlock]bool
	parent *loopInfo
	ord    int // 1-based ordinal in header block index order
}

type Exec struct {
	vc     *VC
	fn     *ssa.Function
	fc     *FuncContract
	pkg    string
	env    map[ssa.Value]Value
	prefix string
	depth  int
	rets   []RetEdge
	loops  map[*ssa.BasicBlock]*loopInfo // by header
	inLoop map[*ssa.BasicBlock]*loopInfo // innermost loop of each block
	rpo    []*ssa.BasicBlock
	rpoIdx map[*ssa.BasicBlock]int
	entry  *State
	params map[string]Value
	defers []*ssa.Defer
	dbg    map[string][]ssa.Value
	callN  map[string]int
	top    *Exec
	aliasedBuf    *Alloc
	cutRegs       map[string]*Term
	concreteRet   map[string][]Value
	inlineAll     bool
	usedDirs      map[int]bool
	phiNames      map[*ssa.Phi]string
	curPhi        *ssa.Phi
	prune         bool
	pruneAssumes  []*Term
	pruneCache    map[*Term]bool
	pruneQueries  int
	callRes       map[string]Value
	hdrState      map[*loopInfo]*State
	hdrPhis       map[*loopInfo]map[*ssa.Phi]Value
	initMode      bool
	forceInline   map[string]bool
	appendMustFit bool
	allocFilter   func(ins ssa.Instruction, kind string) bool
	poolItem      *Alloc
	// hooks
	onCall func(ex *Exec, call *ssa.Call, name string, ord int, res Value, pc *Term, st *State) Value
}

func (ex *Exec) unsupported(format string, a ...interface{}) {
	msg := fmt.Sprintf("%s: ", ex.fn.Name()) + fmt.Sprintf(format, a...)
	ex.vc.Unsup = append(ex.vc.Unsup, msg)
	panic(unsupErr{msg})
}

type unsupErr struct{ msg string }

// ---------- loop structure ----------

func (ex *Exec) analyzeCFG() {
	fn := ex.fn
	// reverse postorder
	seen := map[*ssa.BasicBlock]bool{}
	var post []*ssa.BasicBlock
	var dfs func(b *ssa.BasicBlock)
	dfs = func(b *ssa.BasicBlock) {
		seen[b] = true
		for _, s := range b.Succs {
			if !seen[s] {
				dfs(s)
			}
		}
		post = append(post, b)
	}
	dfs(fn.Blocks[0])
	ex.rpoIdx = map[*ssa.BasicBlock]int{}
	for i := len(post) - 1; i >= 0; i-- {
		ex.rpoIdx[post[i]] = len(ex.rpo)
		ex.rpo = append(ex.rpo, post[i])
	}
	ex.loops = map[*ssa.BasicBlock]*loopInfo{}
	ex.inLoop = map[*ssa.BasicBlock]*loopInfo{}
	// back edges: b -> h with h dominating b
	for _, b := range ex.rpo {
		for _, h := range b.Succs {
			if h.Dominates(b) {
				li := ex.loops[h]
				if li == nil {
					li = &loopInfo{header: h, blocks: map[*ssa.BasicBlock]bool{h: true}}
					ex.loops[h] = li
				}
				// natural loop: all blocks that reach b without passing h
				stack := []*ssa.BasicBlock{b}
				for len(stack) > 0 {
					x := stack[len(stack)-1]
					stack = stack[:len(stack)-1]
					if li.blocks[x] {
						continue
					}
					li.blocks[x] = true
					for _, p := range x.Preds {
						stack = append(stack, p)
					}
				}
			}
		}
	}
	// ordinals by header index; nesting by containment
	var hs []*ssa.BasicBlock
	for h := range ex.loops {
		hs = append(hs, h)
	}
	sort.Slice(hs, func(i, j int) bool { return hs[i].Index < hs[j].Index })
	for i, h := range hs {
		ex.loops[h].ord = i + 1
	}
	for _, b := range fn.Blocks {
		var best *loopInfo
		for _, h := range hs {
			li := ex.loops[h]
			if li.blocks[b] && (best == nil || len(li.blocks) < len(best.blocks)) {
				best = li
			}
		}
		ex.inLoop[b] = best
	}
	for _, h := range hs {
		li := ex.loops[h]
		var best *loopInfo
		for _, h2 := range hs {
			l2 := ex.loops[h2]
			if l2 != li && l2.blocks[h] && (best == nil || len(l2.blocks) < len(best.blocks)) {
				best = l2
			}
		}
		li.parent = best
	}
}

func (ex *Exec) outermostLoop(b *ssa.BasicBlock) *loopInfo {
	li := ex.inLoop[b]
	for li != nil && li.parent != nil {
		li = li.parent
	}
	return li
}

// ---------- running a function ----------

func newExec(vc *VC, fn *ssa.Function, parent *Exec) *Exec {
	ex := &Exec{vc: vc, fn: fn, env: map[ssa.Value]Value{}, pkg: pkgKeyOf(fn), callN: map[string]int{}}
	if pc := vc.W.Contr[ex.pkg]; pc != nil {
		ex.fc = pc.Funcs[FuncKey(fn)]
	}
	if parent != nil {
		ex.depth = parent.depth + 1
		ex.top = parent.top
		ex.onCall = parent.onCall
	} else {
		ex.top = ex
	}
	ex.dbg = debugNames(fn)
	ex.analyzeCFG()
	return ex
}

// runBody executes the function body from 'st' under path condition pc with params bound in env.
// It returns the merged return (pc, state, values).
func (ex *Exec) runBody(pc *Term, st *State) (retPC *Term, retSt *State, vals []Value) {
	ex.entry = st
	in := map[*ssa.BasicBlock][]Edge{}
	in[ex.fn.Blocks[0]] = []Edge{{to: ex.fn.Blocks[0], pc: pc, st: st}}
	scope := map[*ssa.BasicBlock]bool{}
	for _, b := range ex.fn.Blocks {
		scope[b] = true
	}
	exits := ex.execScope(nil, scope, in)
	if len(exits) != 0 {
		ex.unsupported("edges leaving function scope")
	}
	if len(ex.rets) == 0 {
		return False, st, nil
	}
	// merge returns
	r := ex.rets[len(ex.rets)-1]
	retPC, retSt, vals = r.pc, r.st, r.vals
	for i := len(ex.rets) - 2; i >= 0; i-- {
		e := ex.rets[i]
		retSt = mergeState(e.pc, e.st, retSt)
		nv := make([]Value, len(vals))
		for k := range vals {
			nv[k] = mergeValue(e.pc, e.vals[k], vals[k])
		}
		vals = nv
		retPC = Or(e.pc, retPC)
	}
	return
}

// execScope processes the blocks of 'scope' (function body or loop body of 'li') in RPO, treating
// directly nested loops as units.  'in' holds the incoming edges. It returns edges that leave the
// scope (including back edges to li.header, marked by to==li.header).
func (ex *Exec) execScope(li *loopInfo, scope map[*ssa.BasicBlock]bool, in map[*ssa.BasicBlock][]Edge) []Edge {
	var out []Edge
	done := map[*ssa.BasicBlock]bool{}
	route := func(e Edge) {
		if e.pc.IsFalse() {
			return
		}
		if scope[e.to] && !(li != nil && e.to == li.header) {
			in[e.to] = append(in[e.to], e)
		} else {
			out = append(out, e)
		}
	}
	for _, b := range ex.rpo {
		if !scope[b] || done[b] {
			continue
		}
		inner := ex.loops[b]
		if inner != nil && inner != li {
			// nested loop handled as a unit
			for x := range inner.blocks {
				done[x] = true
			}
			edges := in[b]
			if len(edges) == 0 {
				continue
			}
			for _, e := range ex.execLoop(inner, edges) {
				route(e)
			}
			continue
		}
		done[b] = true
		edges := in[b]
		if len(edges) == 0 {
			continue
		}
		for _, e := range ex.execBlock(b, edges) {
			route(e)
		}
	}
	return out
}

func (ex *Exec) snapshot(b *ssa.BasicBlock) map[ssa.Value]Value {
	ol := ex.outermostLoop(b)
	if ol == nil {
		return nil
	}
	m := map[ssa.Value]Value{}
	for blk := range ol.blocks {
		for _, ins := range blk.Instrs {
			if v, ok := ins.(ssa.Value); ok {
				if x, ok := ex.env[v]; ok {
					m[v] = x
				}
			}
		}
	}
	return m
}

// mergeEdges combines incoming edges into a path condition, state and environment.
func (ex *Exec) mergeEdges(edges []Edge) (*Term, *State) {
	last := edges[len(edges)-1]
	pc, st := last.pc, last.st
	envs := map[ssa.Value]Value{}
	for v, x := range last.env {
		envs[v] = x
	}
	for i := len(edges) - 2; i >= 0; i-- {
		e := edges[i]
		st = mergeState(e.pc, e.st, st)
		for v, x := range e.env {
			if y, ok := envs[v]; ok {
				envs[v] = mergeValue(e.pc, x, y)
			} else {
				envs[v] = x
			}
		}
		pc = Or(e.pc, pc)
	}
	for v, x := range envs {
		ex.env[v] = x
	}
	return pc, st
}

func (ex *Exec) phiValue(phi *ssa.Phi, edges []Edge) Value {
	var res Value
	for i := len(edges) - 1; i >= 0; i-- {
		e := edges[i]
		idx := -1
		for k, p := range phi.Block().Preds {
			if p == e.from {
				idx = k
			}
		}
		if idx < 0 {
			ex.unsupported("phi edge not found")
		}
		var v Value
		op := phi.Edges[idx]
		if x, ok := e.env[op]; ok {
			v = x
		} else {
			v = ex.val(op)
		}
		if res == nil {
			res = v
		} else {
			res = mergeValue(e.pc, v, res)
		}
	}
	return res
}

func (ex *Exec) execBlock(b *ssa.BasicBlock, edges []Edge) []Edge {
	// phis first (they read values along edges, before env is overwritten by the merge)
	phiVals := map[*ssa.Phi]Value{}
	for _, ins := range b.Instrs {
		if phi, ok := ins.(*ssa.Phi); ok {
			phiVals[phi] = ex.phiValue(phi, edges)
		} else {
			break
		}
	}
	pc, st := ex.mergeEdges(edges)
	for phi, v := range phiVals {
		ex.env[phi] = v
	}
	st = st.Clone()
	if ex.fc != nil && len(phiVals) > 0 {
		for _, ins := range b.Instrs {
			phi, ok := ins.(*ssa.Phi)
			if !ok {
				break
			}
			if name := ex.phiPoint(phi); name != "" {
				ex.curPhi = phi
				ex.pointDirectives("at "+name, b, pc, st, nil)
				ex.curPhi = nil
			}
		}
	}
	return ex.execInstrs(b, 0, pc, st)
}

// execInstrs runs block b from instruction index 'from' (phis are skipped).
func (ex *Exec) execInstrs(b *ssa.BasicBlock, from int, pc *Term, st *State) []Edge {
	var out []Edge
	for _, ins := range b.Instrs[from:] {
		switch i := ins.(type) {
		case *ssa.Phi, *ssa.DebugRef:
			continue
		case *ssa.If:
			c := ex.term(ex.val(i.Cond))
			if ex.top.prune && !c.IsConst() {
				// feasibility pruning under the function's preconditions (sound: only edges proved
				// unreachable are dropped)
				if !ex.feasible(And(pc, c)) {
					c = False
				} else if !ex.feasible(And(pc, Not(c))) {
					c = True
				}
			}
			snap := ex.snapshot(b)
			out = append(out, Edge{from: b, to: b.Succs[0], pc: And(pc, c), st: st, env: snap})
			out = append(out, Edge{from: b, to: b.Succs[1], pc: And(pc, Not(c)), st: st, env: snap})
			return out
		case *ssa.Jump:
			out = append(out, Edge{from: b, to: b.Succs[0], pc: pc, st: st, env: ex.snapshot(b)})
			return out
		case *ssa.Return:
			var vals []Value
			for _, r := range i.Results {
				vals = append(vals, ex.val(r))
			}
			ex.rets = append(ex.rets, RetEdge{pc: pc, st: st, vals: vals})
			return nil
		case *ssa.Panic:
			ex.vc.Oblige(ex.obName("safety", "panic_unreachable"), "safety", Implies(pc, False))
			return nil
		default:
			ex.execInstr(ins, pc, st)
		}
	}
	return out
}

func (ex *Exec) obName(kind, detail string) string {
	return fmt.Sprintf("gocvss%s.%s/%s/%s", ex.pkg, FuncKey(ex.fn), kind, detail)
}

// ---------- values ----------

func (ex *Exec) val(v ssa.Value) Value {
	if x, ok := ex.env[v]; ok {
		return x
	}
	switch c := v.(type) {
	case *ssa.Const:
		return ex.constVal(c)
	case *ssa.Global:
		a := ex.vc.Globals[c]
		if a == nil {
			ex.unsupported("global %s not initialised", c.Name())
		}
		return &PtrV{A: a}
	case *ssa.Function:
		return c
	case *ssa.Builtin:
		return c
	}
	ex.unsupported("value %s (%T) undefined", v.Name(), v)
	return nil
}

func (ex *Exec) term(v Value) *Term {
	switch x := v.(type) {
	case *Term:
		return x
	case *StructV:
		return structTerm(x)
	case *CondV:
		var res *Term
		for i := len(x.Alts) - 1; i >= 0; i-- {
			t := ex.term(x.Alts[i].V)
			if res == nil {
				res = t
			} else {
				res = Ite(x.Alts[i].C, t, res)
			}
		}
		return res
	}
	ex.unsupported("expected a term, got %s", describeValue(v))
	return nil
}

func structTerm(s *StructV) *Term {
	if s.Name == "" {
		panic(unsupErr{"anonymous struct as term"})
	}
	args := make([]*Term, len(s.Fields))
	for i, f := range s.Fields {
		t, ok := f.(*Term)
		if !ok {
			panic(unsupErr{"non-scalar struct field as term"})
		}
		args[i] = t
	}
	ensureStructSort(s.Name, s.T)
	return App("mk-"+s.Name, s.Name, args...)
}

type structSortInfo struct {
	Name   string
	Fields []string
	Sorts  []string
}

var structSorts = map[string]*structSortInfo{}
var structSortOrder []string

func ensureStructSort(name string, t *types.Struct) *structSortInfo {
	if si, ok := structSorts[name]; ok {
		return si
	}
	si := &structSortInfo{Name: name}
	var accs []string
	for i := 0; i < t.NumFields(); i++ {
		if sortOfType(t.Field(i).Type()) == "" || sortOfType(t.Field(i).Type()) == structName(t.Field(i).Type()) {
			return nil // not a flat struct of scalars: never an SMT datatype
		}
	}
	for i := 0; i < t.NumFields(); i++ {
		f := t.Field(i)
		si.Fields = append(si.Fields, f.Name())
		si.Sorts = append(si.Sorts, sortOfType(f.Type()))
		accs = append(accs, name+"."+f.Name())
	}
	structSorts[name] = si
	structSortOrder = append(structSortOrder, name)
	registerCtor("mk-"+name, accs...)
	return si
}

func structSortDecls() string {
	var sb strings.Builder
	for _, n := range structSortOrder {
		si := structSorts[n]
		fmt.Fprintf(&sb, "(declare-datatypes ((%s 0)) (((mk-%s", n, n)
		for i, f := range si.Fields {
			fmt.Fprintf(&sb, " (%s.%s %s)", n, f, sortSMT(si.Sorts[i]))
		}
		sb.WriteString("))))\n")
	}
	return sb.String()
}

// symbolic value of a Go type, with all leaves fresh symbols named after 'hint'.
func (ex *Exec) freshValue(hint string, t types.Type, st *State) Value {
	if s := sortOfType(t); s != "" {
		if st, ok := t.Underlying().(*types.Struct); ok {
			sv := &StructV{T: st, Name: structName(t)}
			ensureStructSort(sv.Name, st)
			for i := 0; i < st.NumFields(); i++ {
				sv.Fields = append(sv.Fields, ex.freshValue(hint+"."+st.Field(i).Name(), st.Field(i).Type(), nil))
			}
			return sv
		}
		sym := ex.vc.Fresh(hint, s)
		if s == SStr {
			ex.vc.Assume(And(ILe(IntLit(0), strLen(sym)), ILt(strLen(sym), IntLit(1<<62)), ILe(IntLit(0), strOff(sym))))
		}
		return sym
	}
	switch u := t.Underlying().(type) {
	case *types.Struct:
		sv := &StructV{T: u, Name: structName(t)}
		for i := 0; i < u.NumFields(); i++ {
			sv.Fields = append(sv.Fields, ex.freshValue(hint+"."+u.Field(i).Name(), u.Field(i).Type(), st))
		}
		return sv
	case *types.Tuple:
		tv := &TupleV{}
		for i := 0; i < u.Len(); i++ {
			tv.Elems = append(tv.Elems, ex.freshValue(fmt.Sprintf("%s.%d", hint, i), u.At(i).Type(), st))
		}
		return tv
	case *types.Slice:
		a := ex.vc.NewAlloc(hint+".arr", u.Elem(), true)
		a.Fresh = false
		arr := ex.vc.Fresh(hint+".arr", arrSortFor(u.Elem()))
		if st != nil {
			st.mem[a] = &SymArrV{Arr: arr, Elem: u.Elem()}
		}
		l, c := ex.vc.Fresh(hint+".len", SInt), ex.vc.Fresh(hint+".cap", SInt)
		ex.vc.Assume(And(ILe(IntLit(0), l), ILe(l, c), ILt(c, IntLit(1<<62))))
		return &SliceV{Base: a, Off: IntLit(0), Len: l, Cap: c, Elem: u.Elem()}
	case *types.Pointer:
		a := ex.vc.NewAlloc(hint, u.Elem(), true)
		a.Fresh = false
		if st != nil {
			st.mem[a] = ex.freshValue(hint, u.Elem(), st)
		}
		return &PtrV{A: a}
	case *types.Array:
		av := &ArrayV{}
		for i := int64(0); i < u.Len(); i++ {
			av.Elems = append(av.Elems, ex.freshValue(fmt.Sprintf("%s.%d", hint, i), u.Elem(), st))
		}
		return av
	}
	ex.unsupported("fresh value of type %s", t)
	return nil
}

func arrSortFor(elem types.Type) string {
	switch sortOfType(elem) {
	case SBV8:
		return SArrB
	case SStr:
		return SArrS
	case SInt:
		return SArrI
	case SBool:
		return SArrO
	}
	panic(unsupErr{"array of " + elem.String()})
}

func zeroValue(t types.Type) Value {
	switch u := t.Underlying().(type) {
	case *types.Basic:
		switch sortOfType(t) {
		case SBool:
			return False
		case SBV8, SBV16, SBV32, SBV64:
			return bvlit(big.NewInt(0), widthOf(&Term{Sort: sortOfType(t)}))
		case SInt:
			return IntLit(0)
		case SF64:
			return FPLit(0)
		case SStr:
			return strLit("")
		}
		if u.Kind() == types.UnsafePointer {
			return &NilV{T: t}
		}
	case *types.Struct:
		sv := &StructV{T: u, Name: structName(t)}
		if sv.Name != "" {
			ensureStructSort(sv.Name, u)
		}
		for i := 0; i < u.NumFields(); i++ {
			sv.Fields = append(sv.Fields, zeroValue(u.Field(i).Type()))
		}
		return sv
	case *types.Array:
		av := &ArrayV{}
		for i := int64(0); i < u.Len(); i++ {
			av.Elems = append(av.Elems, zeroValue(u.Elem()))
		}
		return av
	case *types.Interface:
		if sortOfType(t) == SErr {
			return errNil
		}
		return &NilV{T: t}
	case *types.Slice:
		return &SliceV{Base: nil, Off: IntLit(0), Len: IntLit(0), Cap: IntLit(0), Elem: u.Elem()}
	case *types.Pointer, *types.Signature, *types.Map, *types.Chan:
		return &NilV{T: t}
	}
	panic(unsupErr{"zero value of " + t.String()})
}

func (ex *Exec) constVal(c *ssa.Const) Value {
	t := c.Type()
	if c.Value == nil {
		return zeroValue(t)
	}
	switch c.Value.Kind() {
	case constant.Bool:
		return BoolLit(constant.BoolVal(c.Value))
	case constant.String:
		return strLit(constant.StringVal(c.Value))
	case constant.Int:
		b, _ := t.Underlying().(*types.Basic)
		if b != nil && b.Info()&types.IsFloat != 0 {
			f, _ := constant.Float64Val(c.Value)
			return FPLit(f)
		}
		iv, ok := new(big.Int).SetString(c.Value.ExactString(), 10)
		if !ok {
			ex.unsupported("int constant %s", c.Value)
		}
		if b != nil && isBVSort(sortOfType(t)) {
			return bvlit(iv, widthOf(&Term{Sort: sortOfType(t)}))
		}
		return IntLitB(iv)
	case constant.Float:
		f, _ := constant.Float64Val(c.Value)
		return FPLit(f)
	}
	ex.unsupported("constant %s", c)
	return nil
}

// ---------- strings ----------

var errNil = App("Nil", SErr)

func init() {
	registerCtor("mk-str", "s.arr", "s.off", "s.len")
	registerCtor("Nil")
	registerCtor("Sentinel", "sid")
	registerCtor("PErr", "ptype", "pabv")
}

func strArr(s *Term) *Term { return Acc("s.arr", SArrB, s) }
func strOff(s *Term) *Term { return Acc("s.off", SInt, s) }
func strLen(s *Term) *Term { return Acc("s.len", SInt, s) }
func mkStr(arr, off, ln *Term) *Term {
	return App("mk-str", SStr, arr, off, ln)
}

var strLitCache = map[string]*Term{}

func strLit(s string) *Term {
	if t, ok := strLitCache[s]; ok {
		return t
	}
	arr := ConstArr(SArrB, BVLit(0, 8))
	for i := 0; i < len(s); i++ {
		arr = Store(arr, IntLit(int64(i)), BVLit(uint64(s[i]), 8))
	}
	t := mkStr(arr, IntLit(0), IntLit(int64(len(s))))
	strLitCache[s] = t
	litOf[t] = s
	return t
}

var litOf = map[*Term]string{}

func strByte(s, i *Term) *Term { return Select(strArr(s), IAdd(strOff(s), i), SBV8) }

// strEq builds Go string equality.
func strEq(a, b *Term) *Term {
	if a == b {
		return True
	}
	if _, ok := litOf[a]; ok {
		a, b = b, a
	}
	if lb, ok := litOf[b]; ok {
		if la, ok := litOf[a]; ok {
			return BoolLit(la == lb)
		}
		if a.Op == "ite" {
			return Ite(a.Args[0], strEq(a.Args[1], b), strEq(a.Args[2], b))
		}
		cs := []*Term{Eq(strLen(a), IntLit(int64(len(lb))))}
		for i := 0; i < len(lb); i++ {
			cs = append(cs, Eq(strByte(a, IntLit(int64(i))), BVLit(uint64(lb[i]), 8)))
		}
		return And(cs...)
	}
	if b.Op == "ite" {
		return Ite(b.Args[0], strEq(a, b.Args[1]), strEq(a, b.Args[2]))
	}
	if a.Op == "ite" {
		return Ite(a.Args[0], strEq(a.Args[1], b), strEq(a.Args[2], b))
	}
	return App("streq", SBool, a, b)
}

// ---------- memory ----------

func (ex *Exec) load(st *State, p Value, pc *Term) Value {
	return mapCond(p, func(v Value) Value {
		ptr, ok := v.(*PtrV)
		if !ok {
			if _, isNil := v.(*NilV); isNil {
				ex.vc.Oblige(ex.obName("safety", "nil_deref"), "safety", Implies(pc, False))
				return nil
			}
			ex.unsupported("load through %s", describeValue(v))
		}
		if ptr.A == ex.top.poolItem && ex.top.poolItem != nil && st.owned != nil {
			ex.vc.Oblige(ex.obName("pool", "item_used_only_while_owned"), "frame", Implies(pc, st.owned))
		}
		root, ok := st.mem[ptr.A]
		if !ok {
			if ex.vc.GState != nil {
				root, ok = ex.vc.GState.mem[ptr.A]
			}
			if !ok {
				ex.unsupported("load from unallocated %s", ptr.A.Name)
			}
		}
		return ex.navigate(root, ptr.Path, pc)
	})
}

func (ex *Exec) navigate(root Value, path []PathElem, pc *Term) Value {
	cur := root
	for _, pe := range path {
		cur = ex.step(cur, pe, pc)
	}
	return cur
}

func (ex *Exec) step(cur Value, pe PathElem, pc *Term) Value {
	return mapCond(cur, func(cur Value) Value {
		if pe.Index == nil {
			sv, ok := cur.(*StructV)
			if !ok {
				ex.unsupported("field of %s", describeValue(cur))
			}
			return sv.Fields[pe.Field]
		}
		switch x := cur.(type) {
		case *ArrayV:
			if pe.Index.Op == "int" {
				k := pe.Index.IV.Int64()
				if k < 0 || k >= int64(len(x.Elems)) {
					ex.unsupported("constant index %d out of range %d", k, len(x.Elems))
				}
				return x.Elems[k]
			}
			var res Value
			for k := len(x.Elems) - 1; k >= 0; k-- {
				if res == nil {
					res = x.Elems[k]
				} else {
					res = mergeValue(Eq(pe.Index, IntLit(int64(k))), x.Elems[k], res)
				}
			}
			return res
		case *SymArrV:
			return Select(x.Arr, pe.Index, sortOfType(x.Elem))
		}
		ex.unsupported("index into %s", describeValue(cur))
		return nil
	})
}

func (ex *Exec) store(st *State, p Value, v Value, pc *Term) {
	switch ptr := p.(type) {
	case *PtrV:
		root := st.mem[ptr.A]
		if root == nil && len(ptr.Path) > 0 {
			if ex.vc.GState != nil {
				root = ex.vc.GState.mem[ptr.A]
			}
			if root == nil {
				ex.unsupported("store into unallocated %s", ptr.A.Name)
			}
		}
		if ptr.A.Const {
			ex.vc.Oblige(ex.obName("frame", "store_to_constant_table_"+ptr.A.Name), "frame", Implies(pc, False))
		}
		st.mem[ptr.A] = ex.update(root, ptr.Path, v)
	case *CondV:
		for _, al := range ptr.Alts {
			pp, ok := al.V.(*PtrV)
			if !ok {
				ex.unsupported("conditional store through %s", describeValue(al.V))
			}
			old := ex.load(st, pp, pc)
			ex.store(st, pp, mergeValue(al.C, v, old), pc)
		}
	default:
		ex.unsupported("store through %s", describeValue(p))
	}
}

func (ex *Exec) update(cur Value, path []PathElem, v Value) Value {
	if len(path) == 0 {
		return v
	}
	pe := path[0]
	if cv, ok := cur.(*CondV); ok {
		return mapCond(cv, func(x Value) Value { return ex.update(x, path, v) })
	}
	if pe.Index == nil {
		sv, ok := cur.(*StructV)
		if !ok {
			ex.unsupported("field update of %s", describeValue(cur))
		}
		n := &StructV{T: sv.T, Name: sv.Name, Fields: append([]Value(nil), sv.Fields...)}
		n.Fields[pe.Field] = ex.update(sv.Fields[pe.Field], path[1:], v)
		return n
	}
	switch x := cur.(type) {
	case *ArrayV:
		n := &ArrayV{Elems: append([]Value(nil), x.Elems...)}
		if pe.Index.Op == "int" {
			k := pe.Index.IV.Int64()
			n.Elems[k] = ex.update(x.Elems[k], path[1:], v)
			return n
		}
		for k := range n.Elems {
			n.Elems[k] = mergeValue(Eq(pe.Index, IntLit(int64(k))), ex.update(x.Elems[k], path[1:], v), x.Elems[k])
		}
		return n
	case *SymArrV:
		if len(path) != 1 {
			ex.unsupported("nested update in symbolic array")
		}
		return &SymArrV{Arr: Store(x.Arr, pe.Index, ex.term(v)), Elem: x.Elem}
	}
	ex.unsupported("index update of %s", describeValue(cur))
	return nil
}

// ---------- instructions ----------

func (ex *Exec) execInstr(ins ssa.Instruction, pc *Term, st *State) {
	switch i := ins.(type) {
	case *ssa.Alloc:
		a := ex.vc.NewAlloc(ex.prefix+i.Comment+"@"+i.Name(), i.Type().(*types.Pointer).Elem(), i.Heap)
		st.mem[a] = zeroValue(a.Typ)
		ex.env[i] = &PtrV{A: a}
		if i.Heap {
			ex.noteAlloc(i, "new", pc, st)
		}
	case *ssa.Store:
		ex.store(st, ex.val(i.Addr), ex.val(i.Val), pc)
	case *ssa.UnOp:
		ex.env[i] = ex.unop(i, pc, st)
	case *ssa.BinOp:
		ex.env[i] = ex.binop(i, pc)
	case *ssa.FieldAddr:
		ex.env[i] = mapCond(ex.val(i.X), func(v Value) Value {
			p, ok := v.(*PtrV)
			if !ok {
				ex.vc.Oblige(ex.obName("safety", "nil_deref"), "safety", Implies(pc, False))
				return v
			}
			return &PtrV{A: p.A, Path: append(append([]PathElem(nil), p.Path...), PathElem{Field: i.Field})}
		})
	case *ssa.Field:
		ex.env[i] = mapCond(ex.val(i.X), func(v Value) Value { return v.(*StructV).Fields[i.Field] })
	case *ssa.IndexAddr:
		idx := asIndex(ex.term(ex.val(i.Index)))
		ex.env[i] = mapCondG(ex.val(i.X), func(g *Term, v Value) Value {
			gpc := And(pc, g)
			switch x := v.(type) {
			case *SliceV:
				ex.vc.Oblige(ex.obName("safety", "index_in_range"), "safety", Implies(gpc, And(ILe(IntLit(0), idx), ILt(idx, x.Len))))
				if x.Base == nil {
					return &NilV{}
				}
				return &PtrV{A: x.Base, Path: []PathElem{{Field: -1, Index: IAdd(x.Off, idx)}}}
			case *PtrV: // pointer to array
				at, _ := i.X.Type().Underlying().(*types.Pointer).Elem().Underlying().(*types.Array)
				ex.vc.Oblige(ex.obName("safety", "index_in_range"), "safety", Implies(gpc, And(ILe(IntLit(0), idx), ILt(idx, IntLit(at.Len())))))
				return &PtrV{A: x.A, Path: append(append([]PathElem(nil), x.Path...), PathElem{Field: -1, Index: idx})}
			}
			ex.unsupported("IndexAddr on %s", describeValue(v))
			return nil
		})
	case *ssa.Index:
		idx := asIndex(ex.term(ex.val(i.Index)))
		ex.env[i] = mapCond(ex.val(i.X), func(v Value) Value {
			if s, ok := v.(*Term); ok && s.Sort == SStr {
				ex.vc.Oblige(ex.obName("safety", "index_in_range"), "safety", Implies(pc, And(ILe(IntLit(0), idx), ILt(idx, strLen(s)))))
				return strByte(s, idx)
			}
			if av, ok := v.(*ArrayV); ok {
				ex.vc.Oblige(ex.obName("safety", "index_in_range"), "safety", Implies(pc, And(ILe(IntLit(0), idx), ILt(idx, IntLit(int64(len(av.Elems)))))))
				return ex.step(av, PathElem{Field: -1, Index: idx}, pc)
			}
			ex.unsupported("Index on %s", describeValue(v))
			return nil
		})
	case *ssa.Lookup:
		idx := asIndex(ex.term(ex.val(i.Index)))
		s := ex.term(ex.val(i.X))
		if s.Sort != SStr {
			ex.unsupported("Lookup on non-string")
		}
		ex.vc.Oblige(ex.obName("safety", "index_in_range"), "safety", Implies(pc, And(ILe(IntLit(0), idx), ILt(idx, strLen(s)))))
		ex.env[i] = strByte(s, idx)
	case *ssa.Slice:
		ex.env[i] = ex.sliceOp(i, pc, st)
	case *ssa.MakeSlice:
		l, c := ex.term(ex.val(i.Len)), ex.term(ex.val(i.Cap))
		et := i.Type().Underlying().(*types.Slice).Elem()
		a := ex.vc.NewAlloc(ex.prefix+"makeslice@"+i.Name(), et, true)
		ex.vc.Oblige(ex.obName("safety", "makeslice_len_cap"), "safety", Implies(pc, And(ILe(IntLit(0), l), ILe(l, c))))
		st.mem[a] = &SymArrV{Arr: ConstArr(arrSortFor(et), ex.term(zeroValue(et))), Elem: et}
		ex.env[i] = &SliceV{Base: a, Off: IntLit(0), Len: l, Cap: c, Elem: et}
		ex.noteAlloc(i, "make", pc, st)
	case *ssa.Phi:
	case *ssa.Call:
		ex.env[i] = ex.call(i, &i.Call, pc, st)
	case *ssa.Extract:
		ex.env[i] = mapCond(ex.val(i.Tuple), func(v Value) Value { return v.(*TupleV).Elems[i.Index] })
	case *ssa.ChangeType:
		ex.env[i] = ex.val(i.X)
	case *ssa.ChangeInterface:
		ex.env[i] = ex.val(i.X)
	case *ssa.Convert:
		ex.env[i] = ex.convert(i, pc)
	case *ssa.MakeInterface:
		ex.env[i] = ex.makeInterface(i, pc, st)
	case *ssa.TypeAssert:
		v := ex.val(i.X)
		iv, ok := v.(*IfaceV)
		if !ok || i.CommaOk {
			ex.unsupported("type assertion on %s", describeValue(v))
		}
		if !types.Identical(iv.Dyn, i.AssertedType) {
			ex.vc.Oblige(ex.obName("safety", "type_assertion"), "safety", Implies(pc, False))
		}
		ex.env[i] = iv.V
	case *ssa.Defer:
		ex.defers = append(ex.defers, i)
		// arguments are evaluated now
		for _, a := range i.Call.Args {
			ex.env[deferArg{i, a}] = ex.val(a)
		}
	case *ssa.RunDefers:
		for k := len(ex.defers) - 1; k >= 0; k-- {
			ex.runDeferred(ex.defers[k], pc, st)
		}
	case *ssa.DebugRef:
	default:
		ex.unsupported("instruction %T (%s)", ins, ins)
	}
}

type deferArg struct {
	d *ssa.Defer
	a ssa.Value
}

func (deferArg) Name() string                  { return "deferarg" }
func (deferArg) String() string                { return "deferarg" }
func (deferArg) Type() types.Type              { return nil }
func (deferArg) Parent() *ssa.Function         { return nil }
func (deferArg) Referrers() *[]ssa.Instruction { return nil }
func (deferArg) Pos() token.Pos                { return 0 }

func (ex *Exec) unop(i *ssa.UnOp, pc *Term, st *State) Value {
	x := ex.val(i.X)
	switch i.Op {
	case token.MUL:
		v := ex.load(st, x, pc)
		// *(*string)(unsafe.Pointer(&b)): a []byte header read as a string header (T6)
		if sl, ok := v.(*SliceV); ok && sortOfType(i.Type()) == SStr {
			if sa, ok := st.mem[sl.Base].(*SymArrV); ok {
				ex.vc.Extern["unsafe: []byte header reinterpreted as string header (T6)"] = true
				ex.top.aliasedBuf = sl.Base
				return mkStr(sa.Arr, sl.Off, sl.Len)
			}
		}
		return v
	case token.NOT:
		return Not(ex.term(x))
	case token.SUB:
		t := ex.term(x)
		switch t.Sort {
		case SF64:
			return App("fp.neg", SF64, t)
		case SInt:
			return ISub(IntLit(0), t)
		case SBV8, SBV16, SBV32, SBV64:
			return App("bvneg", t.Sort, t)
		}
	case token.XOR:
		t := ex.term(x)
		if isBVSort(t.Sort) {
			return App("bvnot", t.Sort, t)
		}
	}
	ex.unsupported("unary %s", i)
	return nil
}

var rne = Raw("RNE", "RoundingMode")

func (ex *Exec) binop(i *ssa.BinOp, pc *Term) Value {
	xv, yv := ex.val(i.X), ex.val(i.Y)
	// pointer / nil comparisons
	if _, ok := xv.(*Term); !ok {
		return ex.cmpNonTerm(i, xv, yv)
	}
	x, y := ex.term(xv), ex.term(yv)
	switch x.Sort {
	case SBool:
		switch i.Op {
		case token.EQL:
			return Eq(x, y)
		case token.NEQ:
			return Not(Eq(x, y))
		}
	case SErr:
		switch i.Op {
		case token.EQL:
			return errEq(x, y)
		case token.NEQ:
			return Not(errEq(x, y))
		}
	case SStr:
		switch i.Op {
		case token.EQL:
			return strEq(x, y)
		case token.NEQ:
			return Not(strEq(x, y))
		}
	case SBV8, SBV16, SBV32, SBV64:
		if y.Sort != x.Sort { // shift count of another integer type
			if y.Op != "int" && y.Op != "bv" {
				ex.unsupported("symbolic shift count")
			}
			y = bvlit(y.IV, widthOf(x))
		}
		switch i.Op {
		case token.AND:
			return BVBin("bvand", x, y)
		case token.OR:
			return BVBin("bvor", x, y)
		case token.XOR:
			return BVBin("bvxor", x, y)
		case token.AND_NOT:
			return BVBin("bvand", x, App("bvnot", x.Sort, y))
		case token.SHL:
			return BVBin("bvshl", x, y)
		case token.SHR:
			return BVBin("bvlshr", x, y)
		case token.ADD:
			return BVBin("bvadd", x, y)
		case token.SUB:
			return BVBin("bvsub", x, y)
		case token.MUL:
			return BVBin("bvmul", x, y)
		case token.QUO:
			ex.vc.Oblige(ex.obName("safety", "div_by_zero"), "safety", Implies(pc, Not(Eq(y, bvlit(big.NewInt(0), widthOf(x))))))
			return BVBin("bvudiv", x, y)
		case token.REM:
			ex.vc.Oblige(ex.obName("safety", "div_by_zero"), "safety", Implies(pc, Not(Eq(y, bvlit(big.NewInt(0), widthOf(x))))))
			return BVBin("bvurem", x, y)
		case token.EQL:
			return Eq(x, y)
		case token.NEQ:
			return Not(Eq(x, y))
		case token.LSS:
			return BVCmp("bvult", x, y)
		case token.LEQ:
			return BVCmp("bvule", x, y)
		case token.GTR:
			return BVCmp("bvult", y, x)
		case token.GEQ:
			return BVCmp("bvule", y, x)
		}
	case SInt:
		inRange := func(r *Term) *Term {
			if r.Op != "int" {
				ex.vc.Oblige(ex.obName("safety", "int_overflow"), "safety", Implies(pc, And(ILe(IntLit(-1<<63), r), ILe(r, IntLit(1<<63-1)))))
			}
			return r
		}
		switch i.Op {
		case token.ADD:
			return inRange(IAdd(x, y))
		case token.SUB:
			return inRange(ISub(x, y))
		case token.MUL:
			return inRange(IMul(x, y))
		case token.QUO:
			ex.vc.Oblige(ex.obName("safety", "div_by_zero"), "safety", Implies(pc, Not(Eq(y, IntLit(0)))))
			return IQuo(x, y)
		case token.REM:
			ex.vc.Oblige(ex.obName("safety", "div_by_zero"), "safety", Implies(pc, Not(Eq(y, IntLit(0)))))
			return IRem(x, y)
		case token.EQL:
			return Eq(x, y)
		case token.NEQ:
			return Not(Eq(x, y))
		case token.LSS:
			return ILt(x, y)
		case token.LEQ:
			return ILe(x, y)
		case token.GTR:
			return ILt(y, x)
		case token.GEQ:
			return ILe(y, x)
		}
	case SF64:
		if r := intFloatOp(i.Op, x, y); r != nil {
			return r
		}
		switch i.Op {
		case token.ADD:
			return App("fp.add", SF64, rne, x, y)
		case token.SUB:
			return App("fp.sub", SF64, rne, x, y)
		case token.MUL:
			return App("fp.mul", SF64, rne, x, y)
		case token.QUO:
			return App("fp.div", SF64, rne, x, y)
		case token.EQL:
			return App("fp.eq", SBool, x, y)
		case token.NEQ:
			return Not(App("fp.eq", SBool, x, y))
		case token.LSS:
			return App("fp.lt", SBool, x, y)
		case token.LEQ:
			return App("fp.leq", SBool, x, y)
		case token.GTR:
			return App("fp.gt", SBool, x, y)
		case token.GEQ:
			return App("fp.geq", SBool, x, y)
		}
	}
	ex.unsupported("binary op %s on %s", i.Op, x.Sort)
	return nil
}

func errEq(x, y *Term) *Term {
	// only comparisons with nil are meaningful in the verified code
	if y == errNil {
		return isNilErr(x)
	}
	if x == errNil {
		return isNilErr(y)
	}
	return Eq(x, y)
}

func isNilErr(x *Term) *Term {
	switch x.Op {
	case "Nil":
		return True
	case "Sentinel", "PErr":
		return False
	case "ite":
		return Ite(x.Args[0], isNilErr(x.Args[1]), isNilErr(x.Args[2]))
	}
	return App("(_ is Nil)", SBool, x)
}

func (ex *Exec) cmpNonTerm(i *ssa.BinOp, x, y Value) Value {
	isNil := func(v Value) (bool, bool) {
		switch v.(type) {
		case *NilV:
			return true, true
		case *PtrV, *IfaceV:
			return false, true
		}
		return false, false
	}
	xn, ok1 := isNil(x)
	yn, ok2 := isNil(y)
	if ok1 && ok2 && (xn || yn) {
		eq := xn == yn
		if i.Op == token.NEQ {
			eq = !eq
		}
		return BoolLit(eq)
	}
	ex.unsupported("comparison of %s and %s", describeValue(x), describeValue(y))
	return nil
}

func (ex *Exec) sliceOp(i *ssa.Slice, pc *Term, st *State) Value {
	var lo, hi *Term
	if i.Low != nil {
		lo = ex.term(ex.val(i.Low))
	} else {
		lo = IntLit(0)
	}
	if i.High != nil {
		hi = ex.term(ex.val(i.High))
	}
	if i.Max != nil {
		ex.unsupported("3-index slice")
	}
	return mapCond(ex.val(i.X), func(v Value) Value {
		switch x := v.(type) {
		case *Term:
			if x.Sort != SStr {
				break
			}
			h := hi
			if h == nil {
				h = strLen(x)
			}
			ex.vc.Oblige(ex.obName("safety", "slice_bounds"), "safety", Implies(pc, And(ILe(IntLit(0), lo), ILe(lo, h), ILe(h, strLen(x)))))
			return mkStr(strArr(x), IAdd(strOff(x), lo), ISub(h, lo))
		case *SliceV:
			h := hi
			if h == nil {
				h = x.Len
			}
			ex.vc.Oblige(ex.obName("safety", "slice_bounds"), "safety", Implies(pc, And(ILe(IntLit(0), lo), ILe(lo, h), ILe(h, x.Cap))))
			return &SliceV{Base: x.Base, Off: IAdd(x.Off, lo), Len: ISub(h, lo), Cap: ISub(x.Cap, lo), Elem: x.Elem}
		case *PtrV: // pointer to array
			at := i.X.Type().Underlying().(*types.Pointer).Elem().Underlying().(*types.Array)
			h := hi
			if h == nil {
				h = IntLit(at.Len())
			}
			if len(x.Path) != 0 {
				ex.unsupported("slice of nested array")
			}
			return &SliceV{Base: x.A, Off: lo, Len: ISub(h, lo), Cap: ISub(IntLit(at.Len()), lo), Elem: at.Elem()}
		}
		ex.unsupported("slice of %s", describeValue(v))
		return nil
	})
}

func (ex *Exec) convert(i *ssa.Convert, pc *Term) Value {
	v := ex.val(i.X)
	from, to := i.X.Type().Underlying(), i.Type().Underlying()
	fs, ts := sortOfType(from), sortOfType(to)
	if fb, ok := from.(*types.Basic); ok && fb.Kind() == types.UnsafePointer {
		return v
	}
	if tb, ok := to.(*types.Basic); ok && tb.Kind() == types.UnsafePointer {
		return v
	}
	t, ok := v.(*Term)
	if !ok {
		ex.unsupported("convert %s", describeValue(v))
	}
	switch {
	case fs == ts:
		return t
	case isBVSort(fs) && isBVSort(ts):
		wf, wt := widthOf(&Term{Sort: fs}), widthOf(&Term{Sort: ts})
		if t.Op == "bv" {
			return bvlit(t.IV, wt)
		}
		if wt > wf {
			return App(fmt.Sprintf("(_ zero_extend %d)", wt-wf), ts, t)
		}
		return App(fmt.Sprintf("(_ extract %d 0)", wt-1), ts, t)
	case fs == SInt && isBVSort(ts):
		w := widthOf(&Term{Sort: ts})
		if t.Op == "int" {
			return bvlit(t.IV, w)
		}
		return App(fmt.Sprintf("(_ int2bv %d)", w), ts, t)
	case isBVSort(fs) && ts == SInt:
		if t.Op == "bv" {
			return IntLitB(t.IV)
		}
		return App("bv2nat", SInt, t)
	case fs == SInt && ts == SF64:
		if t.Op == "int" && t.IV.IsInt64() && t.IV.Int64() > -(1<<53) && t.IV.Int64() < 1<<53 {
			return FPLit(float64(t.IV.Int64()))
		}
		return App("(_ to_fp 11 53)", SF64, rne, App("to_real", SReal, t))
	case fs == SF64 && ts == SInt:
		r := App("fp.to_real", SReal, t)
		ex.vc.Oblige(ex.obName("safety", "float_to_int_in_range"), "safety", Implies(pc, And(
			Not(App("fp.isNaN", SBool, t)), Not(App("fp.isInfinite", SBool, t)),
			App("<", SBool, r, Raw("9223372036854775808.0", SReal)), App(">", SBool, r, Raw("(- 9223372036854775809.0)", SReal)))))
		return App("ite", SInt, App(">=", SBool, r, Raw("0.0", SReal)), App("to_int", SInt, r), App("-", SInt, App("to_int", SInt, App("-", SReal, r))))
	}
	ex.unsupported("conversion %s -> %s", from, to)
	return nil
}

func (ex *Exec) makeInterface(i *ssa.MakeInterface, pc *Term, st *State) Value {
	v := ex.val(i.X)
	if sortOfType(i.Type()) == SErr {
		// pointer to an error struct with a single string field
		if p, ok := v.(*PtrV); ok {
			obj := ex.load(st, p, pc)
			sv, ok := obj.(*StructV)
			if ok && len(sv.Fields) == 1 {
				return App("PErr", SErr, IntLit(errTypeID(ex.pkg, sv.Name)), ex.term(sv.Fields[0]))
			}
		}
		if s, ok := v.(*Term); ok && s.Sort == SStr { // panic(fmt.Sprintf(...)) style values never reach here as error
			return s
		}
		ex.unsupported("error value from %s", describeValue(v))
	}
	if _, isPtr := i.X.Type().Underlying().(*types.Pointer); !isPtr {
		ex.noteAlloc(i, "iface", pc, st)
	}
	return &IfaceV{Dyn: i.X.Type(), V: v}
}

var errTypeIDs = map[string]int64{}
var errTypeNames []string

func errTypeID(pkg, name string) int64 {
	k := name
	if id, ok := errTypeIDs[k]; ok {
		return id
	}
	id := int64(len(errTypeIDs) + 1)
	errTypeIDs[k] = id
	errTypeNames = append(errTypeNames, k)
	return id
}

var sentinelIDs = map[string]int64{}
var sentinelNames []string

func sentinelID(name string) int64 {
	if id, ok := sentinelIDs[name]; ok {
		return id
	}
	id := int64(len(sentinelIDs) + 1)
	sentinelIDs[name] = id
	sentinelNames = append(sentinelNames, name)
	return id
}

// noteAlloc: ghost allocation counter (C17).  Refined by the escape-analysis cross-check.
func (ex *Exec) noteAlloc(ins ssa.Instruction, kind string, pc *Term, st *State) {
	if st.allocs == nil {
		return
	}
	if ex.top.allocFilter != nil && !ex.top.allocFilter(ins, kind) {
		return
	}
	st.allocs = Ite(pc, IAdd(st.allocs, IntLit(1)), st.allocs)
}

// feasible asks the solver whether cond is satisfiable together with the preconditions.
func (ex *Exec) feasible(cond *Term) bool {
	top := ex.top
	if cond.IsFalse() {
		return false
	}
	if top.pruneCache == nil {
		top.pruneCache = map[*Term]bool{}
	}
	if v, ok := top.pruneCache[cond]; ok {
		return v
	}
	top.pruneQueries++
	prelude, _, _ := ex.vc.W.PreludeFor(ex.top.pkg)
	script := ScriptFor(prelude, top.pruneAssumes, Not(cond), false)
	script = strings.Replace(script, "(get-model)\n", "", 1)
	qname := fmt.Sprintf("q%d_%d", os.Getpid(), top.pruneQueries)
	sts, out, _ := RunBatch(script, filepath.Join(smtOutDir, "prune"), qname, 5, "z3-5")
	os.Remove(filepath.Join(smtOutDir, "prune", qname+".smt2"))
	res := true
	if len(sts) == 1 && sts[0] == "unsat" && !errorBeforeStatus(out) {
		res = false
	}
	top.pruneCache[cond] = res
	return res
}

// phiPoint names the k-th phi (in block order) of a source variable: "l#3".
func (ex *Exec) phiPoint(phi *ssa.Phi) string {
	if ex.phiNames == nil {
		ex.phiNames = map[*ssa.Phi]string{}
		cnt := map[string]int{}
		for _, b := range ex.fn.Blocks {
			for _, ins := range b.Instrs {
				p, ok := ins.(*ssa.Phi)
				if !ok {
					break
				}
				if p.Comment != "" {
					cnt[p.Comment]++
					ex.phiNames[p] = fmt.Sprintf("%s#%d", p.Comment, cnt[p.Comment])
				}
			}
		}
	}
	return ex.phiNames[phi]
}

// ---------- integer-valued floats (DESIGN 3.5) ----------
// Values such as the loop counter of index() and the severity distances are small integers carried
// in float64.  IEEE-754 addition, subtraction and comparison are exact on integers of magnitude
// below 2^53; such terms are kept as i2f(n) with n a mathematical integer term of statically bounded
// magnitude (below 2^11), and the operations are performed on n.  That float64 addition, subtraction
// and comparison agree with the integer operations on this range is discharged by bit-blasting
// (intFloatLemmas: all pairs of 12-bit signed integers), not assumed.

const intFloatBound = 1 << 11

// intFloatLemmas: for all 12-bit signed a, b: fl(a) (+,-) fl(b) = fl(a (+,-) b) (13-bit result, so no
// wrap-around), fl(a) < fl(b) <=> a < b, fl(a) <= fl(b) <=> a <= b, fl(a) == fl(b) <=> a = b.
func intFloatLemmas(prefix, pkg string) []Lemma {
	decl := "(declare-const a (_ BitVec 12))\n(declare-const b (_ BitVec 12))\n" +
		"(define-fun fa () (_ FloatingPoint 11 53) ((_ to_fp 11 53) RNE a))\n" +
		"(define-fun fb () (_ FloatingPoint 11 53) ((_ to_fp 11 53) RNE b))\n"
	mk := func(name, goal string) Lemma {
		return Lemma{Name: prefix + "/lemma/integer_valued_floats_exact/" + name, Pkg: pkg, Bare: true, Timeout: 150,
			Script: decl + "(assert (not " + goal + "))\n"}
	}
	return []Lemma{
		mk("add", "(= (fp.add RNE fa fb) ((_ to_fp 11 53) RNE (bvadd ((_ sign_extend 1) a) ((_ sign_extend 1) b))))"),
		mk("sub", "(= (fp.sub RNE fa fb) ((_ to_fp 11 53) RNE (bvsub ((_ sign_extend 1) a) ((_ sign_extend 1) b))))"),
		mk("order", "(and (= (fp.lt fa fb) (bvslt a b)) (= (fp.leq fa fb) (bvsle a b)) (= (fp.gt fa fb) (bvsgt a b)) (= (fp.geq fa fb) (bvsge a b)))"),
		mk("equality", "(and (= (fp.eq fa fb) (= a b)) (not (fp.isNaN fa)) (not (fp.isInfinite fa)) (not (fp.isNegative ((_ to_fp 11 53) RNE #x000))))"),
	}
}

func intBounds(n *Term) (lo, hi int64, ok bool) {
	switch n.Op {
	case "int":
		if n.IV.IsInt64() {
			v := n.IV.Int64()
			return v, v, true
		}
	case "ite":
		l1, h1, ok1 := intBounds(n.Args[1])
		l2, h2, ok2 := intBounds(n.Args[2])
		if ok1 && ok2 {
			if l2 < l1 {
				l1 = l2
			}
			if h2 > h1 {
				h1 = h2
			}
			return l1, h1, true
		}
	case "+":
		if len(n.Args) == 2 {
			l1, h1, ok1 := intBounds(n.Args[0])
			l2, h2, ok2 := intBounds(n.Args[1])
			if ok1 && ok2 {
				return l1 + l2, h1 + h2, true
			}
		}
	case "-":
		if len(n.Args) == 2 {
			l1, h1, ok1 := intBounds(n.Args[0])
			l2, h2, ok2 := intBounds(n.Args[1])
			if ok1 && ok2 {
				return l1 - h2, h1 - l2, true
			}
		}
	}
	return 0, 0, false
}

// asIntFloat returns the integer term n with t = i2f(n), if t is an integer-valued float term.
func asIntFloat(t *Term) (*Term, bool) {
	switch t.Op {
	case "i2f":
		return t.Args[0], true
	case "fp":
		if t.F == float64(int64(t.F)) && t.F > -intFloatBound && t.F < intFloatBound && !(t.F == 0 && math.Signbit(t.F)) {
			return IntLit(int64(t.F)), true
		}
	case "ite":
		a, ok1 := asIntFloat(t.Args[1])
		b, ok2 := asIntFloat(t.Args[2])
		if ok1 && ok2 {
			return Ite(t.Args[0], a, b), true
		}
	}
	return nil, false
}

func init() {
	eqIntFloat = func(a, b *Term) *Term {
		x, ok1 := asIntFloat(a)
		y, ok2 := asIntFloat(b)
		if ok1 && ok2 {
			return Eq(x, y)
		}
		return nil
	}
}

func mkI2F(n *Term) *Term {
	if n.Op == "int" && n.IV.IsInt64() {
		return FPLit(float64(n.IV.Int64()))
	}
	return App("i2f", SF64, n)
}

func intFloatOp(op token.Token, x, y *Term) *Term {
	a, ok1 := asIntFloat(x)
	b, ok2 := asIntFloat(y)
	if !ok1 || !ok2 {
		return nil
	}
	// at least one side must be a genuine integer-valued term or both literals
	var r *Term
	switch op {
	case token.ADD:
		r = IAdd(a, b)
	case token.SUB:
		r = ISub(a, b)
	case token.LSS:
		return ILt(a, b)
	case token.LEQ:
		return ILe(a, b)
	case token.GTR:
		return ILt(b, a)
	case token.GEQ:
		return ILe(b, a)
	case token.EQL:
		return Eq(a, b)
	case token.NEQ:
		return Not(Eq(a, b))
	default:
		return nil
	}
	lo, hi, ok := intBounds(r)
	if !ok || lo <= -intFloatBound || hi >= intFloatBound {
		return nil
	}
	return mkI2F(r)
}

// asIndex converts an index of an unsigned integer type to a mathematical integer.
func asIndex(t *Term) *Term {
	if isBVSort(t.Sort) {
		if t.Op == "bv" {
			return IntLitB(t.IV)
		}
		return App("bv2nat", SInt, t)
	}
	return t
}
