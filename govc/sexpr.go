package main

import (
	"fmt"
	"strings"
)

// S-expression reader for contract clauses and spec preludes.

type SX struct {
	Atom string // non-empty for atoms (string literals keep their quotes)
	List []*SX
	IsL  bool
}

func (s *SX) String() string {
	if !s.IsL {
		return s.Atom
	}
	var parts []string
	for _, c := range s.List {
		parts = append(parts, c.String())
	}
	return "(" + strings.Join(parts, " ") + ")"
}

func (s *SX) Head() string {
	if s.IsL && len(s.List) > 0 && !s.List[0].IsL {
		return s.List[0].Atom
	}
	return ""
}

func tokenizeSX(src string) ([]string, error) {
	var toks []string
	i := 0
	for i < len(src) {
		c := src[i]
		switch {
		case c == ' ' || c == '\t' || c == '\n' || c == '\r':
			i++
		case c == ';':
			for i < len(src) && src[i] != '\n' {
				i++
			}
		case c == '(' || c == ')':
			toks = append(toks, string(c))
			i++
		case c == '"':
			j := i + 1
			for j < len(src) && src[j] != '"' {
				j++
			}
			if j >= len(src) {
				return nil, fmt.Errorf("unterminated string in %q", src)
			}
			toks = append(toks, src[i:j+1])
			i = j + 1
		case c == '|':
			j := i + 1
			for j < len(src) && src[j] != '|' {
				j++
			}
			toks = append(toks, src[i:j+1])
			i = j + 1
		default:
			j := i
			for j < len(src) && !strings.ContainsRune(" \t\n\r();", rune(src[j])) {
				j++
			}
			toks = append(toks, src[i:j])
			i = j
		}
	}
	return toks, nil
}

func parseSXAll(src string) ([]*SX, error) {
	toks, err := tokenizeSX(src)
	if err != nil {
		return nil, err
	}
	pos := 0
	var out []*SX
	for pos < len(toks) {
		s, np, err := parseSXAt(toks, pos)
		if err != nil {
			return nil, err
		}
		out = append(out, s)
		pos = np
	}
	return out, nil
}

func parseSX(src string) (*SX, error) {
	all, err := parseSXAll(src)
	if err != nil {
		return nil, err
	}
	if len(all) != 1 {
		return nil, fmt.Errorf("expected one expression, got %d in %q", len(all), src)
	}
	return all[0], nil
}

func parseSXAt(toks []string, pos int) (*SX, int, error) {
	if pos >= len(toks) {
		return nil, pos, fmt.Errorf("unexpected end")
	}
	t := toks[pos]
	if t == ")" {
		return nil, pos, fmt.Errorf("unexpected )")
	}
	if t != "(" {
		return &SX{Atom: t}, pos + 1, nil
	}
	l := &SX{IsL: true}
	pos++
	for {
		if pos >= len(toks) {
			return nil, pos, fmt.Errorf("missing )")
		}
		if toks[pos] == ")" {
			return l, pos + 1, nil
		}
		c, np, err := parseSXAt(toks, pos)
		if err != nil {
			return nil, np, err
		}
		l.List = append(l.List, c)
		pos = np
	}
}

func parenBalance(s string) int {
	n := 0
	inStr := false
	for i := 0; i < len(s); i++ {
		switch {
		case s[i] == '"':
			inStr = !inStr
		case inStr:
		case s[i] == ';':
			return n
		case s[i] == '(':
			n++
		case s[i] == ')':
			n--
		}
	}
	return n
}
