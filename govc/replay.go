package main

// Replay of solver counterexamples on the real code: the model's inputs are turned into an
// in-package Go test injected with `go test -overlay` into the scratch copy; the observed results are
// substituted into the function's contract clauses, which the solver then evaluates.

import (
	"bytes"
	"encoding/json"
	"fmt"
	"go/types"
	"math"
	"math/big"
	"os"
	"os/exec"
	"path/filepath"
	"sort"
	"strconv"
	"strings"

	"golang.org/x/tools/go/ssa"
)

type ReplayInfo struct {
	Confirmed     bool                   `json:"confirmed"`
	Inputs        map[string]interface{} `json:"inputs,omitempty"`
	Observed      map[string]interface{} `json:"observed,omitempty"`
	FailedClauses []string               `json:"failed_contract_clauses,omitempty"`
	Panicked      bool                   `json:"panicked,omitempty"`
	Note          string                 `json:"note,omitempty"`
	TestSource    string                 `json:"go_test_source,omitempty"`
	TestOutput    string                 `json:"go_test_output,omitempty"`
}

type query struct {
	key  string
	term *Term
}

const maxStrBytes = 96

func strQueries(key string, s *Term) []query {
	qs := []query{{key + ".len", strLen(s)}}
	for i := 0; i < maxStrBytes; i++ {
		qs = append(qs, query{fmt.Sprintf("%s.b%d", key, i), strByte(s, IntLit(int64(i)))})
	}
	return qs
}

func (cc *CheckCtx) inputQueries(fr *FuncRun) []query {
	var qs []query
	fn := fr.Ex.fn
	for _, p := range fn.Params {
		v := fr.Params[p.Name()]
		qs = append(qs, valueQueries(fr, p.Name(), v)...)
	}
	// hidden inputs: stale contents of the pool item (v2 ParseVector)
	if fr.Ex.poolItem != nil {
		if av, ok := fr.Entry.mem[fr.Ex.poolItem]; ok {
			_ = av
		}
	}
	return qs
}

func valueQueries(fr *FuncRun, key string, v Value) []query {
	switch x := v.(type) {
	case *Term:
		if x.Sort == SStr {
			return strQueries(key, x)
		}
		return []query{{key, x}}
	case *StructV:
		var qs []query
		for i, f := range x.Fields {
			qs = append(qs, valueQueries(fr, key+"."+x.T.Field(i).Name(), f)...)
		}
		return qs
	case *PtrV:
		return valueQueries(fr, key, fr.Entry.mem[x.A])
	case *SliceV:
		qs := []query{{key + ".len", x.Len}, {key + ".cap", x.Cap}}
		if sa, ok := fr.Entry.mem[x.Base].(*SymArrV); ok && sortOfType(x.Elem) == SStr {
			for i := 0; i < 16; i++ {
				e := Select(sa.Arr, IAdd(x.Off, IntLit(int64(i))), SStr)
				qs = append(qs, query{fmt.Sprintf("%s.e%d.len", key, i), strLen(e)})
				for b := 0; b < 8; b++ {
					qs = append(qs, query{fmt.Sprintf("%s.e%d.b%d", key, i, b), strByte(e, IntLit(int64(b)))})
				}
			}
		}
		if sa, ok := fr.Entry.mem[x.Base].(*SymArrV); ok && sortOfType(x.Elem) == SBV8 {
			for i := 0; i < 16; i++ {
				qs = append(qs, query{fmt.Sprintf("%s.e%d", key, i), Select(sa.Arr, IAdd(x.Off, IntLit(int64(i))), SBV8)})
			}
		}
		return qs
	}
	return nil
}

// modelValues re-solves the refuted obligation asking for the values of the given terms.
func modelValues(fr *FuncRun, o *Oblig, qs []query) (map[string]string, string) {
	termMu.Lock()
	assumes := fr.VC.Assumes[:o.NAssume]
	if o.Hyps != nil {
		assumes = o.Hyps
	}
	p := NewPrinter()
	roots := append(append([]*Term(nil), assumes...), o.Cond)
	for _, q := range qs {
		roots = append(roots, q.term)
	}
	p.Prepare(roots...)
	var body strings.Builder
	for _, a := range assumes {
		fmt.Fprintf(&body, "(assert %s)\n", p.Emit(a))
	}
	g := p.Emit(Not(o.Cond))
	var qtxt []string
	for _, q := range qs {
		qtxt = append(qtxt, p.Emit(q.term))
	}
	var sb strings.Builder
	sb.WriteString(scriptHead)
	if hasQuant(roots...) {
		sb.WriteString("(set-option :auto_config false)\n(set-option :smt.mbqi false)\n")
	}
	sb.WriteString(filterPrelude(fr.Prelude, p.Defs()+body.String()+g+strings.Join(qtxt, " ")))
	sb.WriteString(structSortDeclsExtra(fr.Prelude))
	sb.WriteString(p.Decls(nil))
	sb.WriteString(p.Defs())
	sb.WriteString(body.String())
	fmt.Fprintf(&sb, "(assert %s)\n(check-sat)\n(get-value (%s))\n", g, strings.Join(qtxt, " "))
	termMu.Unlock()
	dir := filepath.Join(smtOutDir, slug(fr.Pkg+"."+fr.Key))
	for _, sv := range []string{"z3-5", "z3-4", "cvc5"} {
		sts, out, _ := RunBatch(sb.String(), dir, slug(o.Name)+".values", 30, sv)
		if len(sts) == 0 || sts[0] != "sat" || errorBeforeStatus(out) {
			continue
		}
		i := strings.Index(out, "sat")
		sx, err := parseSX(strings.TrimSpace(out[i+3:]))
		if err != nil || !sx.IsL || len(sx.List) != len(qs) {
			continue
		}
		vals := map[string]string{}
		for k, pair := range sx.List {
			if pair.IsL && len(pair.List) == 2 {
				vals[qs[k].key] = pair.List[1].String()
			}
		}
		return vals, out
	}
	return nil, ""
}

func parseIntVal(s string) (int64, bool) {
	s = strings.TrimSpace(s)
	if strings.HasPrefix(s, "(- ") {
		v, err := strconv.ParseInt(strings.TrimSuffix(strings.TrimPrefix(s, "(- "), ")"), 10, 64)
		return -v, err == nil
	}
	if strings.HasPrefix(s, "#x") {
		v, err := strconv.ParseUint(s[2:], 16, 64)
		return int64(v), err == nil
	}
	if strings.HasPrefix(s, "#b") {
		v, err := strconv.ParseUint(s[2:], 2, 64)
		return int64(v), err == nil
	}
	v, err := strconv.ParseInt(s, 10, 64)
	return v, err == nil
}

func parseFPVal(s string) (uint64, bool) {
	s = strings.TrimSpace(s)
	switch {
	case strings.HasPrefix(s, "(fp "):
		f := strings.Fields(strings.Trim(s, "()"))
		if len(f) != 4 {
			return 0, false
		}
		bits := func(x string) (uint64, int) {
			if strings.HasPrefix(x, "#b") {
				v, _ := strconv.ParseUint(x[2:], 2, 64)
				return v, len(x) - 2
			}
			v, _ := strconv.ParseUint(x[2:], 16, 64)
			return v, 4 * (len(x) - 2)
		}
		sg, _ := bits(f[1])
		ex, _ := bits(f[2])
		mn, _ := bits(f[3])
		return sg<<63 | ex<<52 | mn, true
	case strings.Contains(s, "+zero"):
		return 0, true
	case strings.Contains(s, "-zero"):
		return 1 << 63, true
	case strings.Contains(s, "+oo"):
		return math.Float64bits(math.Inf(1)), true
	case strings.Contains(s, "-oo"):
		return math.Float64bits(math.Inf(-1)), true
	case strings.Contains(s, "NaN"):
		return math.Float64bits(math.NaN()), true
	}
	return 0, false
}

type concreteIn struct {
	goExpr string // Go expression constructing the value
	val    Value  // symbolic (constant) value for contract evaluation
	shown  interface{}
}

func goBytesLit(b []byte) string {
	var parts []string
	for _, c := range b {
		parts = append(parts, fmt.Sprintf("0x%02x", c))
	}
	return "string([]byte{" + strings.Join(parts, ", ") + "})"
}

func strFromVals(vals map[string]string, key string) ([]byte, bool) {
	n, ok := parseIntVal(vals[key+".len"])
	if !ok || n < 0 || n > maxStrBytes {
		return nil, false
	}
	b := make([]byte, n)
	for i := range b {
		v, ok := parseIntVal(vals[fmt.Sprintf("%s.b%d", key, i)])
		if !ok {
			return nil, false
		}
		b[i] = byte(v)
	}
	return b, true
}

// concretize builds Go source and constant values for a parameter from the model.
func concretize(vals map[string]string, key string, t types.Type, qual string) (*concreteIn, bool) {
	switch u := t.Underlying().(type) {
	case *types.Basic:
		switch sortOfType(t) {
		case SStr:
			b, ok := strFromVals(vals, key)
			if !ok {
				return nil, false
			}
			return &concreteIn{goExpr: goBytesLit(b), val: strLit(string(b)), shown: string(b)}, true
		case SBV8:
			v, ok := parseIntVal(vals[key])
			if !ok {
				return nil, false
			}
			return &concreteIn{goExpr: fmt.Sprintf("uint8(0x%02x)", v), val: BVLit(uint64(v), 8), shown: v}, true
		case SInt:
			v, ok := parseIntVal(vals[key])
			if !ok {
				return nil, false
			}
			return &concreteIn{goExpr: fmt.Sprintf("int(%d)", v), val: IntLit(v), shown: v}, true
		case SBool:
			b := strings.TrimSpace(vals[key]) == "true"
			return &concreteIn{goExpr: fmt.Sprint(b), val: BoolLit(b), shown: b}, true
		case SF64:
			bits, ok := parseFPVal(vals[key])
			if !ok {
				return nil, false
			}
			return &concreteIn{goExpr: fmt.Sprintf("math.Float64frombits(0x%016x)", bits), val: FPLit(math.Float64frombits(bits)), shown: fmt.Sprintf("%v (bits 0x%016x)", math.Float64frombits(bits), bits)}, true
		}
	case *types.Struct:
		name := structName(t)
		var fs []string
		sv := &StructV{T: u, Name: name}
		shown := map[string]interface{}{}
		for i := 0; i < u.NumFields(); i++ {
			c, ok := concretize(vals, key+"."+u.Field(i).Name(), u.Field(i).Type(), qual)
			if !ok {
				return nil, false
			}
			fs = append(fs, u.Field(i).Name()+": "+c.goExpr)
			sv.Fields = append(sv.Fields, c.val)
			shown[u.Field(i).Name()] = c.shown
		}
		return &concreteIn{goExpr: name + "{" + strings.Join(fs, ", ") + "}", val: sv, shown: shown}, true
	case *types.Slice:
		n, ok := parseIntVal(vals[key+".len"])
		if !ok || n < 0 || n > 16 {
			return nil, false
		}
		var es []string
		var shown []interface{}
		for i := int64(0); i < n; i++ {
			switch sortOfType(u.Elem()) {
			case SStr:
				ln, ok := parseIntVal(vals[fmt.Sprintf("%s.e%d.len", key, i)])
				if !ok || ln < 0 || ln > 8 {
					return nil, false
				}
				b := make([]byte, ln)
				for k := range b {
					v, _ := parseIntVal(vals[fmt.Sprintf("%s.e%d.b%d", key, i, k)])
					b[k] = byte(v)
				}
				es = append(es, goBytesLit(b))
				shown = append(shown, string(b))
			case SBV8:
				v, _ := parseIntVal(vals[fmt.Sprintf("%s.e%d", key, i)])
				es = append(es, fmt.Sprintf("0x%02x", v))
				shown = append(shown, v)
			default:
				return nil, false
			}
		}
		return &concreteIn{goExpr: types.TypeString(t, func(*types.Package) string { return "" }) + "{" + strings.Join(es, ", ") + "}", val: nil, shown: shown}, true
	}
	return nil, false
}

// observed output encoders (Go source printing a JSON-able value for a result of type t)
func encoderFor(t types.Type, expr string, sentinels []string, errTypes []string) (string, bool) {
	switch u := t.Underlying().(type) {
	case *types.Basic:
		switch sortOfType(t) {
		case SStr:
			return fmt.Sprintf("map[string]interface{}{\"kind\": \"string\", \"bytes\": govcBytes(%s)}", expr), true
		case SBV8, SInt:
			return fmt.Sprintf("map[string]interface{}{\"kind\": \"int\", \"v\": int64(%s)}", expr), true
		case SBool:
			return fmt.Sprintf("map[string]interface{}{\"kind\": \"bool\", \"v\": %s}", expr), true
		case SF64:
			return fmt.Sprintf("map[string]interface{}{\"kind\": \"float\", \"bits\": fmt.Sprintf(\"%%016x\", math.Float64bits(%s)), \"text\": fmt.Sprint(%s)}", expr, expr), true
		}
	case *types.Interface:
		if sortOfType(t) == SErr {
			return fmt.Sprintf("govcErr(%s)", expr), true
		}
	case *types.Pointer:
		if st, ok := u.Elem().Underlying().(*types.Struct); ok {
			var fs []string
			for i := 0; i < st.NumFields(); i++ {
				fs = append(fs, fmt.Sprintf("int64(%s.%s)", expr, st.Field(i).Name()))
			}
			return fmt.Sprintf("func() interface{} { if %s == nil { return map[string]interface{}{\"kind\": \"nilptr\"} }; return map[string]interface{}{\"kind\": \"struct\", \"fields\": []int64{%s}} }()", expr, strings.Join(fs, ", ")), true
		}
	case *types.Struct:
		var fs []string
		for i := 0; i < u.NumFields(); i++ {
			fs = append(fs, fmt.Sprintf("int64(%s.%s)", expr, u.Field(i).Name()))
		}
		return fmt.Sprintf("map[string]interface{}{\"kind\": \"struct\", \"fields\": []int64{%s}}", strings.Join(fs, ", ")), true
	}
	return "", false
}

func boolFieldsOnly(st *types.Struct) bool {
	for i := 0; i < st.NumFields(); i++ {
		if sortOfType(st.Field(i).Type()) != SBool {
			return false
		}
	}
	return true
}

func (cc *CheckCtx) replay(fr *FuncRun, r *ObResult) {
	defer func() {
		if rec := recover(); rec != nil {
			r.Replay = &ReplayInfo{Note: fmt.Sprintf("replay not possible: %v", rec)}
		}
	}()
	var ob *Oblig
	for _, o := range fr.VC.Obligs {
		if o.Name == r.Name {
			ob = o
		}
	}
	if ob == nil {
		return
	}
	info := &ReplayInfo{Inputs: map[string]interface{}{}}
	r.Replay = info
	qs := cc.inputQueries(fr)
	vals, _ := modelValues(fr, ob, qs)
	if vals == nil {
		info.Note = "solver gave no usable model values"
		return
	}
	fn := fr.Ex.fn
	pkgName := fn.Pkg.Pkg.Name()
	// concrete inputs
	conc := map[string]*concreteIn{}
	for _, p := range fn.Params {
		t := p.Type()
		if pt, ok := t.Underlying().(*types.Pointer); ok {
			t = pt.Elem()
		}
		c, ok := concretize(vals, p.Name(), t, pkgName)
		if !ok {
			info.Note = "model value of parameter " + p.Name() + " not representable (too long or symbolic)"
			return
		}
		conc[p.Name()] = c
	}
	cc.replayWith(fr, conc, info)
}

// replayInstance replays a failing case-split instance (a concrete receiver object).
func (cc *CheckCtx) replayInstance(fr *FuncRun, in CaseInst, r *ObResult) {
	defer func() {
		if rec := recover(); rec != nil {
			r.Replay = &ReplayInfo{Note: fmt.Sprintf("replay not possible: %v", rec)}
		}
	}()
	info := &ReplayInfo{Inputs: map[string]interface{}{"instance": in.Label}}
	r.Replay = info
	fn := fr.Ex.fn
	vals := map[string]string{}
	for _, p := range fn.Params {
		v := fr.Params[p.Name()]
		if pv, ok := v.(*PtrV); ok {
			v = fr.Entry.mem[pv.A]
		}
		sv, ok := v.(*StructV)
		if !ok {
			info.Note = "instance replay supports receiver-only functions"
			return
		}
		for i, f := range sv.Fields {
			t, _ := f.(*Term)
			c, ok := in.Sub[t]
			if !ok || c.Op != "bv" {
				info.Note = "instance does not fix the whole receiver"
				return
			}
			vals[p.Name()+"."+sv.T.Field(i).Name()] = fmt.Sprintf("#x%02x", c.IV.Uint64())
		}
	}
	conc := map[string]*concreteIn{}
	for _, p := range fn.Params {
		t := p.Type()
		if pt, ok := t.Underlying().(*types.Pointer); ok {
			t = pt.Elem()
		}
		c, ok := concretize(vals, p.Name(), t, fn.Pkg.Pkg.Name())
		if !ok {
			info.Note = "cannot build the instance object"
			return
		}
		conc[p.Name()] = c
	}
	cc.replayWith(fr, conc, info)
}

func (cc *CheckCtx) replayWith(fr *FuncRun, conc map[string]*concreteIn, info *ReplayInfo) {
	fn := fr.Ex.fn
	pkgName := fn.Pkg.Pkg.Name()
	var setup []string
	var callArgs []string
	for i, p := range fn.Params {
		_, isPtr := p.Type().Underlying().(*types.Pointer)
		c := conc[p.Name()]
		info.Inputs[p.Name()] = c.shown
		vn := fmt.Sprintf("in%d", i)
		setup = append(setup, fmt.Sprintf("%s := %s", vn, c.goExpr))
		if isPtr {
			callArgs = append(callArgs, "&"+vn)
		} else {
			callArgs = append(callArgs, vn)
		}
	}
	// call expression
	var call string
	nres := fn.Signature.Results().Len()
	if fn.Signature.Recv() != nil {
		call = fmt.Sprintf("%s.%s(%s)", strings.TrimPrefix(callArgs[0], "&"), fn.Name(), strings.Join(callArgs[1:], ", "))
		if strings.HasPrefix(callArgs[0], "&") {
			call = fmt.Sprintf("(%s).%s(%s)", callArgs[0], fn.Name(), strings.Join(callArgs[1:], ", "))
		}
	} else {
		call = fmt.Sprintf("%s(%s)", fn.Name(), strings.Join(callArgs, ", "))
	}
	var lhs []string
	var encs []string
	sentinels, errTypes := cc.errNames(fr.Pkg)
	for i := 0; i < nres; i++ {
		lhs = append(lhs, fmt.Sprintf("r%d", i))
		e, ok := encoderFor(fn.Signature.Results().At(i).Type(), fmt.Sprintf("r%d", i), sentinels, errTypes)
		if !ok {
			info.Note = "result type not supported by the replay harness"
			return
		}
		encs = append(encs, fmt.Sprintf("out[\"r%d\"] = %s", i, e))
	}
	// state of pointer params after the call
	for i, p := range fn.Params {
		if pt, ok := p.Type().Underlying().(*types.Pointer); ok {
			if _, ok := pt.Elem().Underlying().(*types.Struct); ok {
				e, ok := encoderFor(pt.Elem(), fmt.Sprintf("in%d", i), nil, nil)
				if ok && !boolFieldsOnly(pt.Elem().Underlying().(*types.Struct)) {
					encs = append(encs, fmt.Sprintf("out[\"after_%s\"] = %s", p.Name(), e))
				} else if ok {
					// bool struct (kvm): encode as 0/1
					st := pt.Elem().Underlying().(*types.Struct)
					var fs []string
					for k := 0; k < st.NumFields(); k++ {
						fs = append(fs, fmt.Sprintf("govcB(in%d.%s)", i, st.Field(k).Name()))
					}
					encs = append(encs, fmt.Sprintf("out[\"after_%s\"] = map[string]interface{}{\"kind\": \"struct\", \"fields\": []int64{%s}}", p.Name(), strings.Join(fs, ", ")))
				}
			}
		}
	}
	assign := ""
	if nres > 0 {
		assign = strings.Join(lhs, ", ") + " := "
	}
	var sentCases strings.Builder
	for _, s := range sentinels {
		fmt.Fprintf(&sentCases, "\tif e == %s { return map[string]interface{}{\"kind\": \"sentinel\", \"name\": %q} }\n", s, s)
	}
	for _, tn := range errTypes {
		fmt.Fprintf(&sentCases, "\tif x, ok := e.(*%s); ok { return map[string]interface{}{\"kind\": \"perr\", \"type\": %q, \"abv\": govcBytes(x.Abv)} }\n", tn, tn)
	}
	src := fmt.Sprintf(`package %s

import (
	"encoding/json"
	"fmt"
	"math"
	"testing"
)

var _ = math.Pi

func govcBytes(s string) []int { r := []int{}; for i := 0; i < len(s); i++ { r = append(r, int(s[i])) }; return r }
func govcB(b bool) int64 { if b { return 1 }; return 0 }
func govcErr(e error) interface{} {
	if e == nil { return map[string]interface{}{"kind": "nil"} }
%s	return map[string]interface{}{"kind": "othererr", "text": e.Error()}
}

func TestGovcReplay(t *testing.T) {
	out := map[string]interface{}{}
	%s
	func() {
		defer func() {
			if r := recover(); r != nil {
				out["panic"] = fmt.Sprint(r)
			}
		}()
		%s%s
		%s
	}()
	b, _ := json.Marshal(out)
	fmt.Println("GOVC-REPLAY " + string(b))
}
`, pkgName, sentCases.String(), strings.Join(setup, "\n\t"), assign, call, strings.Join(encs, "\n\t\t"))
	info.TestSource = src
	// run
	tdir := filepath.Join(cc.W.Scratch, "replay")
	os.MkdirAll(tdir, 0o755)
	tf := filepath.Join(tdir, fmt.Sprintf("replay_%d_test.go", len(cc.Results)+os.Getpid()))
	os.WriteFile(tf, []byte(src), 0o644)
	ov := map[string]interface{}{"Replace": map[string]string{filepath.Join(cc.W.RepoDir, fr.Pkg, "zz_govc_replay_test.go"): tf}}
	ovb, _ := json.Marshal(ov)
	ovf := tf + ".overlay.json"
	os.WriteFile(ovf, ovb, 0o644)
	cmd := exec.Command("go", "test", "-overlay", ovf, "-vet=off", "-count=1", "-v", "-timeout", "60s", "-run", "^TestGovcReplay$", "./"+fr.Pkg+"/")
	cmd.Dir = cc.W.RepoDir
	cmd.Env = goEnv()
	var ob2 bytes.Buffer
	cmd.Stdout = &ob2
	cmd.Stderr = &ob2
	cmd.Run()
	outText := ob2.String()
	info.TestOutput = truncate(outText, 4000)
	idx := strings.Index(outText, "GOVC-REPLAY ")
	if idx < 0 {
		info.Note = "replay test produced no result line"
		return
	}
	line := outText[idx+len("GOVC-REPLAY "):]
	if nl := strings.Index(line, "\n"); nl >= 0 {
		line = line[:nl]
	}
	var observed map[string]interface{}
	if err := json.Unmarshal([]byte(line), &observed); err != nil {
		info.Note = "cannot parse replay output"
		return
	}
	info.Observed = observed
	if pmsg, ok := observed["panic"]; ok {
		info.Panicked = true
		info.Confirmed = true
		info.Note = fmt.Sprintf("the real code panics on this input: %v", pmsg)
		return
	}
	// evaluate the contract clauses on the observed behaviour
	cc.evalClausesConcrete(fr, conc, observed, info)
}

func (cc *CheckCtx) errNames(pkg string) (sentinels, errTypes []string) {
	gs := cc.W.globalState(pkg)
	for g := range gs.globals {
		if g.Object() != nil && sortOfType(g.Type().(*types.Pointer).Elem()) == SErr {
			sentinels = append(sentinels, g.Name())
		}
	}
	sort.Strings(sentinels)
	scope := cc.W.PPkgs[pkg].Types.Scope()
	for _, n := range scope.Names() {
		if tn, ok := scope.Lookup(n).(*types.TypeName); ok && strings.HasPrefix(n, "Err") {
			if st, ok := tn.Type().Underlying().(*types.Struct); ok && st.NumFields() == 1 && st.Field(0).Name() == "Abv" {
				errTypes = append(errTypes, n)
			}
		}
	}
	return
}

func observedToValue(o interface{}, t types.Type, pkg string, w *World) (Value, bool) {
	m, ok := o.(map[string]interface{})
	if !ok {
		return nil, false
	}
	toBytes := func(x interface{}) string {
		var b []byte
		if arr, ok := x.([]interface{}); ok {
			for _, e := range arr {
				b = append(b, byte(e.(float64)))
			}
		}
		return string(b)
	}
	switch m["kind"] {
	case "string":
		return strLit(toBytes(m["bytes"])), true
	case "int":
		v := int64(m["v"].(float64))
		if sortOfType(t) == SBV8 {
			return BVLit(uint64(v), 8), true
		}
		return IntLit(v), true
	case "bool":
		return BoolLit(m["v"].(bool)), true
	case "float":
		bits, err := strconv.ParseUint(m["bits"].(string), 16, 64)
		if err != nil {
			return nil, false
		}
		return FPLit(math.Float64frombits(bits)), true
	case "nil":
		return errNil, true
	case "sentinel":
		gs := w.globalState(pkg)
		for g, a := range gs.globals {
			if g.Name() == m["name"] {
				if t, ok := gs.st.mem[a].(*Term); ok {
					return t, true
				}
			}
		}
	case "perr":
		return App("PErr", SErr, IntLit(errTypeID(pkg, m["type"].(string))), strLit(toBytes(m["abv"]))), true
	case "nilptr":
		return &NilV{T: t}, true
	case "struct":
		st, ok := t.Underlying().(*types.Struct)
		tt := t
		if !ok {
			if pt, ok2 := t.Underlying().(*types.Pointer); ok2 {
				st, ok = pt.Elem().Underlying().(*types.Struct)
				tt = pt.Elem()
			}
		}
		if !ok {
			return nil, false
		}
		sv := &StructV{T: st, Name: structName(tt)}
		fs := m["fields"].([]interface{})
		for i := 0; i < st.NumFields(); i++ {
			v := int64(fs[i].(float64))
			switch sortOfType(st.Field(i).Type()) {
			case SBV8:
				sv.Fields = append(sv.Fields, BVLit(uint64(v), 8))
			case SBool:
				sv.Fields = append(sv.Fields, BoolLit(v != 0))
			default:
				return nil, false
			}
		}
		return sv, true
	}
	return nil, false
}

func (cc *CheckCtx) evalClausesConcrete(fr *FuncRun, conc map[string]*concreteIn, observed map[string]interface{}, info *ReplayInfo) {
	fn := fr.Ex.fn
	fc := fr.Ex.fc
	if fc == nil {
		info.Note = "no contract to evaluate"
		return
	}
	vc := &VC{W: cc.W, Pkg: fr.Pkg, Inlined: map[string]bool{}, Modular: map[string]bool{}, Extern: map[string]bool{}, Globals: fr.VC.Globals, GState: fr.VC.GState}
	ex := newExec(vc, fn, nil)
	pre := &State{mem: map[*Alloc]Value{}}
	post := &State{mem: map[*Alloc]Value{}}
	params := map[string]Value{}
	for _, p := range fn.Params {
		c := conc[p.Name()]
		if c.val == nil {
			info.Note = "parameter " + p.Name() + " has no constant form for contract evaluation"
			return
		}
		if pt, ok := p.Type().Underlying().(*types.Pointer); ok {
			a := vc.NewAlloc(p.Name(), pt.Elem(), true)
			pre.mem[a] = c.val
			post.mem[a] = c.val
			if o, ok := observed["after_"+p.Name()]; ok {
				v, ok := observedToValue(o, pt.Elem(), fr.Pkg, cc.W)
				if !ok {
					info.Note = "cannot decode the observed receiver state"
					return
				}
				post.mem[a] = v
			}
			params[p.Name()] = &PtrV{A: a}
		} else {
			params[p.Name()] = c.val
		}
	}
	var results []Value
	for i := 0; i < fn.Signature.Results().Len(); i++ {
		v, ok := observedToValue(observed[fmt.Sprintf("r%d", i)], fn.Signature.Results().At(i).Type(), fr.Pkg, cc.W)
		if !ok {
			info.Note = "cannot decode an observed result"
			return
		}
		if p, isPtrRes := fn.Signature.Results().At(i).Type().Underlying().(*types.Pointer); isPtrRes {
			if sv, ok := v.(*StructV); ok {
				a := vc.NewAlloc("result", p.Elem(), true)
				post.mem[a] = sv
				v = &PtrV{A: a}
			}
		}
		results = append(results, v)
	}
	ctx := &Ctx{ex: ex, fn: fn, fc: fc, st: post, old: pre, params: params, results: results, pc: True}
	anyFalse := false
	for _, d := range append(fc.Of("ensures"), fc.Of("oracle")...) {
		var t *Term
		func() {
			defer func() {
				if r := recover(); r != nil {
					t = nil
				}
			}()
			termMu.Lock()
			defer termMu.Unlock()
			t = ctx.evalBool(d.Text)
		}()
		if t == nil {
			continue
		}
		termMu.Lock()
		script := ScriptFor(fr.Prelude, nil, t, hasQuant(t))
		termMu.Unlock()
		sr := Solve(script, filepath.Join(smtOutDir, slug(fr.Pkg+"."+fr.Key)), "replay_eval_"+slug(d.Label), 20, nil)
		if sr.Status == "sat" {
			anyFalse = true
			info.FailedClauses = append(info.FailedClauses, d.Label+": "+d.Text)
		}
	}
	if anyFalse {
		info.Confirmed = true
		info.Note = "the real code violates the listed contract clause(s) on this input"
	} else {
		info.Note = "the real code satisfies every postcondition on the model's input; the failed obligation is reported without a failing input"
	}
}

var _ = big.NewInt
var _ ssa.Value
