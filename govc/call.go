package main

import (
	"fmt"
	"go/types"
	"strings"

	"golang.org/x/tools/go/ssa"
)

// ---------- calls ----------

func (ex *Exec) call(instr ssa.Instruction, cc *ssa.CallCommon, pc *Term, st *State) Value {
	if cc.IsInvoke() {
		ex.unsupported("interface method call %s", cc)
	}
	var args []Value
	for _, a := range cc.Args {
		args = append(args, ex.val(a))
	}
	switch callee := cc.Value.(type) {
	case *ssa.Builtin:
		return ex.callBuiltin(instr, callee.Name(), cc, args, pc, st)
	case *ssa.Function:
		name := callee.Name()
		if callee.Pkg != nil && pkgKeyOf(callee) != ex.pkg || callee.Pkg == nil {
			full := callee.String()
			ex.vc.Extern[full] = true
			r := ex.callExtern(instr, full, cc, args, pc, st)
			ex.callN["ext:"+name]++
			if ex.callRes == nil {
				ex.callRes = map[string]Value{}
			}
			ex.callRes[fmt.Sprintf("%s#%d", name, ex.callN["ext:"+name])] = r
			ex.pointDirectives(fmt.Sprintf("after %s#%d", name, ex.callN["ext:"+name]), instr.Block(), pc, st, nil)
			return r
		}
		key := FuncKey(callee)
		ex.callN[key]++
		ord := ex.callN[key]
		var res Value
		cfc := ex.vc.W.Contr[ex.pkg].Funcs[key]
		inline := false
		if ex.fc != nil && (ex.fc.Has("inline", key) || ex.fc.Has("inline", name)) {
			inline = true
		} else if ex.fc != nil && (ex.fc.Has("modular", key) || ex.fc.Has("modular", name)) {
			inline = false
		} else if cfc != nil && cfc.Pure {
			inline = true
		} else if cfc == nil {
			inline = true // no contract: only the body can be used
		}
		if ex.top.forceInline != nil && ex.top.forceInline[key] {
			inline = true
		}
		if ex.top.inlineAll {
			inline = true
		}
		if inline {
			res = ex.callInline(callee, args, pc, st, fmt.Sprintf("%s#%d", name, ord))
		} else {
			res = ex.callModular(callee, cfc, args, pc, st, fmt.Sprintf("%s#%d", key, ord))
		}
		if c, ok := instr.(*ssa.Call); ok && ex.onCall != nil {
			res = ex.onCall(ex, c, key, ord, res, pc, st)
		}
		if ex.callRes == nil {
			ex.callRes = map[string]Value{}
		}
		pk := strings.NewReplacer("(", "", ")", "", "*", "").Replace(key)
		ex.callRes[fmt.Sprintf("%s#%d", pk, ord)] = res
		if _, dup := ex.callRes[fmt.Sprintf("%s#%d", name, ord)]; !dup || pk == name {
			ex.callRes[fmt.Sprintf("%s#%d", name, ord)] = res
		}
		ex.pointDirectives(fmt.Sprintf("after %s#%d", pk, ord), instr.Block(), pc, st, nil)
		return res
	}
	ex.unsupported("call of %T", cc.Value)
	return nil
}

func (ex *Exec) callInline(callee *ssa.Function, args []Value, pc *Term, st *State, tag string) Value {
	if ex.depth > 12 {
		ex.unsupported("inline depth exceeded at %s", callee.Name())
	}
	ex.vc.Inlined[pkgKeyOf(callee)+"."+FuncKey(callee)] = true
	sub := newExec(ex.vc, callee, ex)
	sub.prefix = ex.prefix + tag + "/"
	for i, p := range callee.Params {
		sub.env[p] = args[i]
	}
	rpc, rst, vals := sub.runBody(pc, st)
	_ = rpc
	// propagate the callee's final state into the caller's (st is mutated in place)
	st.mem = rst.mem
	st.allocs = rst.allocs
	st.owned = rst.owned
	// the merged result is only used where pc holds: conjuncts of the caller's path condition are
	// removed from the conditions of the result's ite spine (keeps e.g. weight tables free of an
	// enclosing floating-point branch condition)
	for i, v := range vals {
		if t, ok := v.(*Term); ok {
			vals[i] = stripPC(t, pc, 0)
		}
	}
	switch len(vals) {
	case 0:
		return &TupleV{}
	case 1:
		return vals[0]
	}
	return &TupleV{Elems: vals}
}

// stripPC simplifies the ite spine of t under the assumption that every conjunct of pc holds.
func stripPC(t, pc *Term, depth int) *Term {
	if pc.IsTrue() || t.Op != "ite" || depth > 40 {
		return t
	}
	conj := []*Term{pc}
	if pc.Op == "and" {
		conj = pc.Args
	}
	k := t.Args[0]
	for _, c := range conj {
		if c.Op == "not" {
			k = condUnder(k, c.Args[0], false)
		} else {
			k = condUnder(k, c, true)
		}
	}
	a, b := stripPC(t.Args[1], pc, depth+1), stripPC(t.Args[2], pc, depth+1)
	if k == t.Args[0] && a == t.Args[1] && b == t.Args[2] {
		return t
	}
	return Ite(k, a, b)
}

func (ex *Exec) callModular(callee *ssa.Function, cfc *FuncContract, args []Value, pc *Term, st *State, tag string) Value {
	ex.vc.Modular[pkgKeyOf(callee)+"."+FuncKey(callee)] = true
	pre := st.Clone()
	ctx := &Ctx{ex: ex, fn: callee, fc: cfc, st: pre, old: pre, params: map[string]Value{}, pc: pc}
	for i, p := range callee.Params {
		ctx.params[p.Name()] = args[i]
	}
	for _, d := range cfc.Of("requires") {
		t := ctx.evalBool(d.Text)
		ex.vc.Oblige(ex.obName("call", tag+"/pre/"+d.Label), "pre", Implies(pc, t))
	}
	// a callee working on the pool item needs it to be owned for the duration of the call
	if ex.top.poolItem != nil && st.owned != nil {
		for _, a := range args {
			if sl, ok := a.(*SliceV); ok && sl.Base == ex.top.poolItem {
				ex.vc.Oblige(ex.obName("pool", "item_passed_only_while_owned"), "frame", Implies(pc, st.owned))
			}
		}
	}
	// havoc modifies
	for _, d := range cfc.Of("modifies") {
		for _, name := range strings.Fields(d.Text) {
			v, ok := ctx.params[name]
			if !ok {
				ex.unsupported("modifies: unknown parameter %s of %s", name, callee.Name())
			}
			ex.havocTarget(v, st, tag+"."+name)
		}
	}
	// results
	var res Value
	rs := callee.Signature.Results()
	var rvals []Value
	if cr := ex.top.concreteRet[FuncKey(callee)]; cr != nil {
		// case split on the callee's result: its postconditions then constrain the inputs
		rvals = append(rvals, cr...)
	} else {
		for i := 0; i < rs.Len(); i++ {
			rvals = append(rvals, ex.freshValue(fmt.Sprintf("ret.%s.%d", tag, i), rs.At(i).Type(), st))
		}
	}
	switch len(rvals) {
	case 0:
		res = &TupleV{}
	case 1:
		res = rvals[0]
	default:
		res = &TupleV{Elems: rvals}
	}
	post := &Ctx{ex: ex, fn: callee, fc: cfc, st: st, old: pre, params: ctx.params, results: rvals, pc: pc}
	var only map[string]bool
	if ex.fc != nil {
		for _, d := range ex.fc.Of("callee_posts") {
			f := strings.Fields(d.Text)
			if len(f) > 0 && f[0] == FuncKey(callee) {
				only = map[string]bool{}
				for _, l := range f[1:] {
					only[l] = true
				}
			}
		}
	}
	if st.allocs != nil {
		// the callee's allocation effect is whatever its contract says about allocs
		st.allocs = Ite(pc, ex.vc.Fresh("allocs."+tag, SInt), st.allocs)
	}
	for _, d := range cfc.Of("ensures") {
		mentionsAllocs := strings.Contains(d.Text, "allocs")
		if only != nil && !only[d.Label] && !mentionsAllocs {
			continue
		}
		if mentionsAllocs && st.allocs == nil {
			continue
		}
		if ex.vc.ModularPosts == nil {
			ex.vc.ModularPosts = map[string]map[string]bool{}
		}
		ck := pkgKeyOf(callee) + "." + FuncKey(callee)
		if ex.vc.ModularPosts[ck] == nil {
			ex.vc.ModularPosts[ck] = map[string]bool{}
		}
		ex.vc.ModularPosts[ck][d.Label] = true
		ex.vc.Assume(Implies(pc, post.evalBool(d.Text)))
	}
	return res
}

// havocTarget replaces the object a pointer / slice argument refers to by fresh symbols.
func (ex *Exec) havocTarget(v Value, st *State, hint string) {
	switch x := v.(type) {
	case *PtrV:
		cur := ex.load(st, x, True)
		ex.store(st, x, ex.freshLike(hint, cur, x.A.Typ), True)
	case *SliceV:
		if x.Base == nil {
			return
		}
		cur := st.mem[x.Base]
		switch c := cur.(type) {
		case *SymArrV:
			st.mem[x.Base] = &SymArrV{Arr: ex.vc.Fresh(hint+".arr", c.Arr.Sort), Elem: c.Elem}
		case *ArrayV:
			n := &ArrayV{}
			for i := range c.Elems {
				n.Elems = append(n.Elems, ex.freshLike(fmt.Sprintf("%s.%d", hint, i), c.Elems[i], x.Elem))
			}
			st.mem[x.Base] = n
		}
	default:
		ex.unsupported("havoc of %s", describeValue(v))
	}
}

func (ex *Exec) freshLike(hint string, cur Value, t types.Type) Value {
	switch c := cur.(type) {
	case *Term:
		sym := ex.vc.Fresh(hint, c.Sort)
		if c.Sort == SStr {
			ex.vc.Assume(And(ILe(IntLit(0), strLen(sym)), ILt(strLen(sym), IntLit(1<<62)), ILe(IntLit(0), strOff(sym))))
		}
		return sym
	case *StructV:
		n := &StructV{T: c.T, Name: c.Name}
		for i, f := range c.Fields {
			n.Fields = append(n.Fields, ex.freshLike(hint+"."+c.T.Field(i).Name(), f, c.T.Field(i).Type()))
		}
		return n
	case *SliceV:
		l, cp := ex.vc.Fresh(hint+".len", SInt), ex.vc.Fresh(hint+".cap", SInt)
		ex.vc.Assume(And(ILe(IntLit(0), l), ILe(l, cp)))
		return &SliceV{Base: c.Base, Off: c.Off, Len: l, Cap: cp, Elem: c.Elem}
	case *ArrayV:
		n := &ArrayV{}
		for i := range c.Elems {
			n.Elems = append(n.Elems, ex.freshLike(fmt.Sprintf("%s.%d", hint, i), c.Elems[i], nil))
		}
		return n
	case *SymArrV:
		return &SymArrV{Arr: ex.vc.Fresh(hint, c.Arr.Sort), Elem: c.Elem}
	}
	ex.unsupported("fresh copy of %s", describeValue(cur))
	return nil
}

// ---------- builtins ----------

func (ex *Exec) callBuiltin(instr ssa.Instruction, name string, cc *ssa.CallCommon, args []Value, pc *Term, st *State) Value {
	switch name {
	case "len":
		return mapCond(args[0], func(v Value) Value {
			switch x := v.(type) {
			case *Term:
				if x.Sort == SStr {
					return strLen(x)
				}
			case *SliceV:
				return x.Len
			}
			ex.unsupported("len of %s", describeValue(v))
			return nil
		})
	case "cap":
		if s, ok := args[0].(*SliceV); ok {
			return s.Cap
		}
	case "append":
		return ex.appendOp(instr, args, pc, st)
	}
	ex.unsupported("builtin %s", name)
	return nil
}

// appendOp models append([]byte, string...) on a symbolic byte array.
// The "fits in capacity" condition is an obligation (C17: no reallocation); execution continues on
// the in-place path, and the reallocating path adds one to the ghost allocation counter.
func (ex *Exec) appendOp(instr ssa.Instruction, args []Value, pc *Term, st *State) Value {
	sl, ok := args[0].(*SliceV)
	if !ok {
		ex.unsupported("append to %s", describeValue(args[0]))
	}
	src, ok := args[1].(*Term)
	if !ok || src.Sort != SStr {
		ex.unsupported("append of %s", describeValue(args[1]))
	}
	n := strLen(src)
	newLen := IAdd(sl.Len, n)
	fits := ILe(newLen, sl.Cap)
	if ex.top.appendMustFit {
		ex.vc.Oblige(ex.obName("alloc", "append_within_cap"), "alloc", Implies(pc, fits))
	} else if st.allocs != nil {
		st.allocs = Ite(And(pc, Not(fits)), IAdd(st.allocs, IntLit(1)), st.allocs)
	}
	if sl.Base == nil {
		ex.unsupported("append to nil slice")
	}
	cur, ok := st.mem[sl.Base].(*SymArrV)
	if !ok {
		ex.unsupported("append into %s", describeValue(st.mem[sl.Base]))
	}
	base := IAdd(sl.Off, sl.Len)
	// Bytes are written as one linear chain of stores.  A store is made a no-op (it rewrites the old
	// byte) when the path condition does not hold or the position lies beyond the appended string.
	leaves := iteLeafLits(src, 64)
	var arr *Term
	if leaves != nil {
		maxLen := 0
		sameLen := true
		for _, l := range leaves {
			if len(l) > maxLen {
				maxLen = len(l)
			}
			if len(l) != len(leaves[0]) {
				sameLen = false
			}
		}
		arr = cur.Arr
		for i := 0; i < maxLen; i++ {
			idx := IAdd(base, IntLit(int64(i)))
			val := strByte(src, IntLit(int64(i)))
			g := pc
			if !sameLen {
				g = And(pc, ILt(IntLit(int64(i)), n))
			}
			if !g.IsTrue() {
				val = Ite(g, val, Select(arr, idx, SBV8))
			}
			arr = Store(arr, idx, val)
		}
	} else if k, okc := constLenOf(src); okc {
		arr = cur.Arr
		for i := 0; i < k; i++ {
			idx := IAdd(base, IntLit(int64(i)))
			val := strByte(src, IntLit(int64(i)))
			if !pc.IsTrue() {
				val = Ite(pc, val, Select(arr, idx, SBV8))
			}
			arr = Store(arr, idx, val)
		}
	} else {
		arr = Ite(pc, App("arrcopy", SArrB, cur.Arr, base, strArr(src), strOff(src), strLen(src)), cur.Arr)
	}
	nv := &SymArrV{Arr: arr, Elem: cur.Elem}
	if !pc.IsTrue() {
		nv.GGuard = pc
		nv.GBase = cur.Arr
		if cur.GGuard == pc && cur.GBase != nil {
			nv.GBase = cur.GBase
		}
	}
	st.mem[sl.Base] = nv
	capT := sl.Cap
	if !ex.top.appendMustFit {
		capT = Ite(fits, sl.Cap, ex.vc.Fresh("growcap", SInt))
	}
	return &SliceV{Base: sl.Base, Off: sl.Off, Len: newLen, Cap: capT, Elem: sl.Elem}
}

// iteLeafLits returns the literal strings at the leaves of an ite tree (nil if some leaf is not a
// literal).
func iteLeafLits(t *Term, budget int) []string {
	if l, ok := litOf[t]; ok {
		return []string{l}
	}
	if t.Op == "ite" && budget > 0 {
		a := iteLeafLits(t.Args[1], budget-1)
		b := iteLeafLits(t.Args[2], budget-1)
		if a == nil || b == nil {
			return nil
		}
		return append(a, b...)
	}
	return nil
}

func constLenOf(s *Term) (int, bool) {
	l := strLen(s)
	if l.Op == "int" {
		return int(l.IV.Int64()), true
	}
	return 0, false
}

// ---------- external functions with built-in (assumed) contracts ----------

func (ex *Exec) callExtern(instr ssa.Instruction, full string, cc *ssa.CallCommon, args []Value, pc *Term, st *State) Value {
	f1 := func(op string, extra ...*Term) Value {
		a := append(extra, ex.term(args[0]))
		return App(op, SF64, a...)
	}
	if ex.initMode && strings.HasSuffix(full, ".init") {
		return &TupleV{}
	}
	switch full {
	case "math.Round":
		return f1("fp.roundToIntegral", Raw("RNA", "RoundingMode"))
	case "math.RoundToEven":
		return f1("fp.roundToIntegral", rne)
	case "math.Floor":
		return f1("fp.roundToIntegral", Raw("RTN", "RoundingMode"))
	case "math.Ceil":
		return f1("fp.roundToIntegral", Raw("RTP", "RoundingMode"))
	case "math.Trunc":
		return f1("fp.roundToIntegral", Raw("RTZ", "RoundingMode"))
	case "math.Abs":
		return f1("fp.abs")
	case "math.NaN":
		return Raw("(_ NaN 11 53)", SF64)
	case "math.IsNaN":
		return App("fp.isNaN", SBool, ex.term(args[0]))
	case "math.Min":
		// Go: Min(x, NaN)=NaN, Min(-0,+0)=-0; SMT fp.min is unspecified only for (+0,-0) pairs
		x, y := ex.term(args[0]), ex.term(args[1])
		return App("gomin", SF64, x, y)
	case "math.Max":
		x, y := ex.term(args[0]), ex.term(args[1])
		return App("gomax", SF64, x, y)
	case "strings.HasPrefix":
		s, p := ex.term(args[0]), ex.term(args[1])
		lit, ok := litOf[p]
		if !ok {
			ex.unsupported("HasPrefix with non-literal prefix")
		}
		cs := []*Term{ILe(IntLit(int64(len(lit))), strLen(s))}
		for i := 0; i < len(lit); i++ {
			cs = append(cs, Eq(strByte(s, IntLit(int64(i))), BVLit(uint64(lit[i]), 8)))
		}
		return And(cs...)
	case "strings.Cut":
		// assumed contract: cut at the first occurrence of the (single byte) separator
		s, sep := ex.term(args[0]), ex.term(args[1])
		lit, ok := litOf[sep]
		if !ok || len(lit) != 1 {
			ex.unsupported("strings.Cut with non single-byte literal separator")
		}
		k := App("firstbyte", SInt, s, BVLit(uint64(lit[0]), 8)) // index of first sep byte, or len if none
		found := ILt(k, strLen(s))
		before := mkStr(strArr(s), strOff(s), k)
		after := Ite(found, mkStr(strArr(s), IAdd(IAdd(strOff(s), k), IntLit(1)), ISub(ISub(strLen(s), k), IntLit(1))), strLit(""))
		return &TupleV{Elems: []Value{before, after, found}}
	case "(*sync.Pool).Get":
		// assumed contract (T5): a []string of length 14 with arbitrary contents, exclusively owned
		// until Put.
		et := types.Typ[types.String]
		a := ex.vc.NewAlloc("poolitem", et, true)
		a.Fresh = false
		av := &ArrayV{}
		for i := 0; i < 14; i++ {
			av.Elems = append(av.Elems, ex.freshValue(fmt.Sprintf("pool.%d", i), et, st))
		}
		st.mem[a] = av
		ex.top.poolItem = a
		st.owned = True
		sl := &SliceV{Base: a, Off: IntLit(0), Len: IntLit(14), Cap: IntLit(14), Elem: et}
		return &IfaceV{Dyn: types.NewSlice(et), V: sl}
	case "(*sync.Pool).Put":
		iv, ok := args[1].(*IfaceV)
		if ok {
			if sl, ok := iv.V.(*SliceV); ok {
				ex.vc.Oblige(ex.obName("pool", "put_item_is_14_slot_slice"), "frame", Implies(pc, And(Eq(sl.Len, IntLit(14)), BoolLit(sl.Base == ex.top.poolItem))))
				// an item is put back exactly once: a second Put would make the pool hand the same
				// slice to two callers
				if st.owned != nil {
					ex.vc.Oblige(ex.obName("pool", "item_put_only_while_owned"), "frame", Implies(pc, st.owned))
				}
				st.owned = Ite(pc, False, st.owned)
				return &TupleV{}
			}
		}
		ex.vc.Oblige(ex.obName("pool", "put_item_is_14_slot_slice"), "frame", Implies(pc, False))
		return &TupleV{}
	case "errors.New":
		// only called from init: a distinct non-nil sentinel per call site
		return App("Sentinel", SErr, IntLit(sentinelID(fmt.Sprintf("%s.errors.New@%d", ex.pkg, len(sentinelIDs)))))
	case "fmt.Sprintf":
		// panic messages only; abstracted to an opaque string (DESIGN 2.1)
		return ex.vc.Fresh("sprintf", SStr)
	}
	ex.unsupported("external function %s", full)
	return nil
}

func (ex *Exec) runDeferred(d *ssa.Defer, pc *Term, st *State) {
	var args []Value
	for _, a := range d.Call.Args {
		args = append(args, ex.env[deferArg{d, a}])
	}
	callee, ok := d.Call.Value.(*ssa.Function)
	if !ok {
		ex.unsupported("deferred call of %T", d.Call.Value)
	}
	full := callee.String()
	ex.vc.Extern[full] = true
	// reuse extern handling with pre-evaluated args
	saved := map[ssa.Value]Value{}
	for i, a := range d.Call.Args {
		if old, ok := ex.env[a]; ok {
			saved[a] = old
		}
		ex.env[a] = args[i]
	}
	ex.callExtern(d, full, &d.Call, args, pc, st)
	for a, v := range saved {
		ex.env[a] = v
	}
}

// pointDirectives handles "lemma[..] <point> <expr>" (assert, then assume) and
// "assume_def[..] <point> (<f>_def args)" (instance of a defining equation of the specification) at a
// program point.
func (ex *Exec) pointDirectives(point string, blk *ssa.BasicBlock, pc *Term, st *State, loop *loopInfo) {
	if ex.fc == nil {
		return
	}
	for _, d := range ex.fc.Dirs {
		if d.Kind != "lemma" && d.Kind != "assume_def" && d.Kind != "lemma_chain" && d.Kind != "cut_reg" {
			continue
		}
		if !strings.HasPrefix(d.Text, point+" ") {
			continue
		}
		if ex.top.usedDirs == nil {
			ex.top.usedDirs = map[int]bool{}
		}
		ex.top.usedDirs[d.Line] = true
		text := strings.TrimSpace(d.Text[len(point):])
		li := loop
		if li == nil && blk != nil {
			li = ex.inLoop[blk]
		}
		ctx := &Ctx{ex: ex, fn: ex.fn, fc: ex.fc, st: st, old: ex.entry, params: ex.paramMap(), pc: pc, loop: li, blk: blk}
		if d.Kind == "cut_reg" {
			// "havoc x : expr": prove expr, then replace the local x by a fresh symbol constrained by expr
			f := strings.SplitN(text, ":", 2)
			name := strings.TrimSpace(strings.TrimPrefix(f[0], "havoc "))
			expr := strings.TrimSpace(f[1])
			t := ctx.evalBool(expr)
			ex.vc.Oblige(ex.obName("cut", d.Label), "cut", Implies(pc, t))
			cur, ok := ctx.lookupName(name)
			if !ok {
				ex.unsupported("cut_reg: unknown local %s", name)
			}
			var target ssa.Value
			for v, x := range ex.env {
				if x == cur {
					if ins, ok := v.(ssa.Instruction); ok && ins.Block() != nil && (ins.Block() == blk || ins.Block().Dominates(blk)) {
						for _, cand := range ex.dbg[name] {
							if cand == v {
								target = v
							}
						}
						if p, ok := v.(*ssa.Phi); ok && p.Comment == name {
							target = v
						}
					}
				}
			}
			if target == nil {
				ex.unsupported("cut_reg: cannot locate the register of %s", name)
			}
			ct, _ := cur.(*Term)
			if ct == nil {
				ex.unsupported("cut_reg: %s is not a scalar", name)
			}
			sym := ex.vc.Fresh("cut."+name, ct.Sort)
			ex.env[target] = sym
			if ex.top.cutRegs == nil {
				ex.top.cutRegs = map[string]*Term{}
			}
			ex.top.cutRegs[name] = sym
			ctx2 := &Ctx{ex: ex, fn: ex.fn, fc: ex.fc, st: st, old: ex.entry, params: ex.paramMap(), pc: pc, loop: li, blk: blk, extra: map[string]Value{name: sym}}
			ex.vc.Assume(Implies(pc, ctx2.evalBool(expr)))
			continue
		}
		if ex.curPhi != nil {
			ctx.extra = map[string]Value{ex.curPhi.Comment: ex.env[ex.curPhi]}
		}
		havocName := ""
		if d.Kind == "lemma_chain" && strings.HasPrefix(text, "havoc ") {
			f := strings.SplitN(text, ":", 2)
			havocName = strings.TrimSpace(strings.TrimPrefix(f[0], "havoc "))
			text = strings.TrimSpace(f[1])
		}
		t := ctx.evalBool(text)
		if d.Kind == "assume_def" {
			sx, _ := parseSX(text)
			for sx != nil && sx.Head() == "let" && len(sx.List) == 3 {
				sx = sx.List[2]
			}
			if sx == nil || !strings.HasSuffix(sx.Head(), "_def") {
				ex.unsupported("assume_def only admits instances of defining equations (<f>_def ...): %s", text)
			}
			ex.vc.DefInst = append(ex.vc.DefInst, sx.Head())
			ex.vc.Assume(Implies(pc, t))
			continue
		}
		ex.vc.Oblige(ex.obName("lemma", d.Label), "lemma", Implies(pc, t))
		if d.Kind == "lemma_chain" {
			// "havoc x : expr": cut the state of the []byte local x (fresh array and length), forget the
			// previous link of the chain, and continue from the lemma alone
			if havocName != "" {
				name := havocName
				if ex.curPhi != nil && ex.curPhi.Comment == name {
					// a register (the phi at this point): replace its value by a fresh symbol
					ex.env[ex.curPhi] = ex.freshValue("cut."+name, ex.curPhi.Type(), st)
					ctx2 := &Ctx{ex: ex, fn: ex.fn, fc: ex.fc, st: st, old: ex.entry, params: ex.paramMap(), pc: pc, loop: li, extra: map[string]Value{name: ex.env[ex.curPhi]}}
					t = ctx2.evalBool(text)
					ex.chainLink(pc, t)
					continue
				}
				v, ok := ctx.lookupName(name)
				if !ok {
					ex.unsupported("lemma_chain: unknown variable %s", name)
				}
				pv, ok := v.(*PtrV)
				if !ok {
					ex.unsupported("lemma_chain: %s is not an addressable local", name)
				}
				sl, ok := ex.load(st, pv, pc).(*SliceV)
				if !ok {
					ex.unsupported("lemma_chain: %s is not a slice", name)
				}
				old := st.mem[sl.Base].(*SymArrV)
				st.mem[sl.Base] = &SymArrV{Arr: ex.vc.Fresh("cut."+name+".arr", old.Arr.Sort), Elem: old.Elem}
				nl := ex.vc.Fresh("cut."+name+".len", SInt)
				ex.store(st, pv, &SliceV{Base: sl.Base, Off: sl.Off, Len: nl, Cap: sl.Cap, Elem: sl.Elem}, pc)
				ctx2 := &Ctx{ex: ex, fn: ex.fn, fc: ex.fc, st: st, old: ex.entry, params: ex.paramMap(), pc: pc, loop: li}
				t = ctx2.evalBool(text)
			}
			ex.chainLink(pc, t)
			continue
		}
		ex.vc.Assume(Implies(pc, t))
	}
}

// chainLink assumes the next link of a lemma chain.  The previous link is superseded only when it
// was established under the same path condition (otherwise other paths still depend on it).
func (ex *Exec) chainLink(pc, t *Term) {
	vc := ex.vc
	if vc.chainIdx > 0 && vc.chainPC == pc {
		if vc.dropped == nil {
			vc.dropped = map[int]bool{}
		}
		vc.dropped[vc.chainIdx-1] = true
	}
	vc.Assumes = append(vc.Assumes, Implies(pc, t))
	vc.chainIdx = len(vc.Assumes)
	vc.chainPC = pc
}
