package main

import (
	"runtime"
	"fmt"
	"go/types"
	"os"
	"path/filepath"
	"regexp"
	"sort"
	"strings"
	"sync"
	"time"

	"golang.org/x/tools/go/ssa"
)

type gstate struct {
	globals map[*ssa.Global]*Alloc
	st      *State
}

// globalState symbolically runs the package initialiser once to obtain the values of the package
// variables (constant tables, sentinel errors).
func (w *World) globalState(pkg string) *gstate {
	if gs, ok := w.gstates[pkg]; ok {
		return gs
	}
	p := w.Pkgs[pkg]
	gs := &gstate{globals: map[*ssa.Global]*Alloc{}, st: &State{mem: map[*Alloc]Value{}}}
	w.gstates[pkg] = gs
	vc := &VC{W: w, Pkg: pkg, Inlined: map[string]bool{}, Modular: map[string]bool{}, Extern: map[string]bool{}, Globals: gs.globals, NoSafety: true}
	var names []string
	for n, m := range p.Members {
		if _, ok := m.(*ssa.Global); ok {
			names = append(names, n)
		}
	}
	sort.Strings(names)
	for _, n := range names {
		g := p.Members[n].(*ssa.Global)
		et := g.Type().(*types.Pointer).Elem()
		a := &Alloc{ID: -len(gs.globals) - 1, Name: g.Name(), Typ: et, Heap: true}
		gs.globals[g] = a
		func() {
			defer func() {
				if r := recover(); r != nil {
					if _, ok := r.(unsupErr); !ok {
						panic(r)
					}
				}
			}()
			gs.st.mem[a] = zeroValue(et)
		}()
	}
	initFn := p.Func("init")
	ex := newExec(vc, initFn, nil)
	ex.initMode = true
	func() {
		defer func() {
			if r := recover(); r != nil {
				if ue, ok := r.(unsupErr); ok {
					fmt.Fprintf(os.Stderr, "govc: package %s init not fully interpreted: %s\n", pkg, ue.msg)
					return
				}
				panic(r)
			}
		}()
		_, st, _ := ex.runBody(True, gs.st)
		gs.st = st
	}()
	// unexported tables are constants if nothing outside init stores to them (checked separately)
	for g, a := range gs.globals {
		if g.Object() != nil && !g.Object().Exported() && g.Name() != "splitPool" && !strings.HasPrefix(g.Name(), "init$") {
			a.Const = true
		}
	}
	return gs
}

type ObResult struct {
	Name    string  `json:"name"`
	Kind    string  `json:"kind"`
	Status  string  `json:"status"` // proved, refuted, undischarged
	Solver  string  `json:"solver,omitempty"`
	Seconds float64 `json:"seconds"`
	File    string  `json:"smt_file,omitempty"`
	Model   string  `json:"model,omitempty"`
	Output  string  `json:"output,omitempty"`
	Func    string  `json:"func,omitempty"`
	Pkg     string  `json:"pkg,omitempty"`
	Replay  *ReplayInfo `json:"replay,omitempty"`
}

type FuncRun struct {
	Pkg      string
	Key      string
	VC       *VC
	Ex       *Exec
	Entry    *State
	RetPC    *Term
	RetSt    *State
	RetVals  []Value
	Params   map[string]Value
	Err      string
	Warn     []string // stale proof hints (dropped, not fatal)
	Prelude  string
	PreOblig []*Oblig
}

type RunOpts struct {
	NoSafety      bool
	TrackAllocs   bool
	AppendMustFit bool
	ForceInline   map[string]bool
	AllocFilter   func(ins ssa.Instruction, kind string) bool
	OnCall        func(ex *Exec, call *ssa.Call, name string, ord int, res Value, pc *Term, st *State) Value
	ExtraRequires []string
	Suffix        string // symbol suffix for self-composition
	SkipPost      bool
	FreshBase     int
	InlineAll     bool
	ConcreteRet   map[string][]Value
}

// RunFunc symbolically executes pkg.key under its contract and collects obligations.
func (w *World) RunFunc(pkg, key string, opts RunOpts) (fr *FuncRun) {
	fr = &FuncRun{Pkg: pkg, Key: key}
	fn := w.Func(pkg, key)
	if fn == nil {
		fr.Err = fmt.Sprintf("function %s.%s not found", pkg, key)
		return
	}
	prelude, pob, err := w.PreludeFor(pkg)
	if err != nil {
		fr.Err = err.Error()
		return
	}
	fr.Prelude, fr.PreOblig = prelude, pob
	gs := w.globalState(pkg)
	vc := &VC{W: w, Pkg: pkg, FnName: key, Inlined: map[string]bool{}, Modular: map[string]bool{}, Extern: map[string]bool{}, Globals: gs.globals, GState: gs.st, NoSafety: opts.NoSafety}
	fr.VC = vc
	defer func() {
		if r := recover(); r != nil {
			if ue, ok := r.(unsupErr); ok {
				fr.Err = "outside-subset: " + ue.msg
				return
			}
			if _, isRT := r.(runtime.Error); isRT {
				fr.Err = fmt.Sprintf("outside-subset: the verifier could not process the body (%v)", r)
				return
			}
			panic(r)
		}
	}()
	vc.fresh = opts.FreshBase
	ex := newExec(vc, fn, nil)
	ex.inlineAll = opts.InlineAll
	ex.concreteRet = opts.ConcreteRet
	ex.forceInline = opts.ForceInline
	ex.appendMustFit = opts.AppendMustFit
	ex.allocFilter = opts.AllocFilter
	ex.onCall = opts.OnCall
	fr.Ex = ex
	st := &State{mem: map[*Alloc]Value{}}
	if opts.TrackAllocs {
		st.allocs = Sym("allocs0"+opts.Suffix, SInt)
	}
	st.owned = False
	params := map[string]Value{}
	for _, p := range fn.Params {
		v := ex.freshParam(p.Name()+opts.Suffix, p.Type(), st)
		ex.env[p] = v
		params[p.Name()] = v
	}
	ex.params = params
	fr.Params = params
	entry := st.Clone()
	fr.Entry = entry
	if ex.fc != nil {
		ctx := &Ctx{ex: ex, fn: fn, fc: ex.fc, st: entry, old: entry, params: params, pc: True}
		for _, d := range ex.fc.Of("requires") {
			vc.Assume(ctx.evalBool(d.Text))
		}
		for _, r := range opts.ExtraRequires {
			vc.Assume(ctx.evalBool(r))
		}
	}
	if ex.fc != nil && ex.fc.Has("opt", "prune_infeasible") {
		ex.prune = true
		ex.pruneAssumes = append([]*Term(nil), vc.Assumes...)
	}
	rpc, rst, vals := ex.runBody(True, st)
	fr.RetPC, fr.RetSt, fr.RetVals = rpc, rst, vals
	if ex.fc != nil {
		for _, d := range ex.fc.Dirs {
			if (d.Kind == "lemma" || d.Kind == "lemma_chain" || d.Kind == "assume_def") && !ex.usedDirs[d.Line] {
				// a proof hint whose program point no longer exists is dropped: hints only add
				// instances of definitions or separately discharged lemmas, never assumptions about
				// the code, so the remaining obligations are attempted without it
				fr.Warn = append(fr.Warn, fmt.Sprintf("contract hint %s[%s] of %s.%s refers to a program point that does not exist (dropped): %s", d.Kind, d.Label, pkg, key, strings.TrimSpace(strings.SplitN(d.Text, "(", 2)[0])))
			}
		}
	}
	if ex.poolItem != nil {
		// the pool item taken by this call is put back on every return path (steady-state assumption
		// of C17, ownership condition of C14)
		for k, re := range ex.rets {
			vc.Oblige(fmt.Sprintf("gocvss%s.%s/pool/item_put_back/return%d", pkg, key, k+1), "frame", Implies(re.pc, Not(re.st.owned)))
		}
	}
	if ex.fc != nil && !opts.SkipPost {
		if ex.fc.Has("opt", "split_returns") {
			// one obligation per return site: simpler queries, and a failure names the path
			for k, re := range ex.rets {
				post := &Ctx{ex: ex, fn: fn, fc: ex.fc, st: re.st, old: entry, params: params, results: re.vals, pc: re.pc}
				for _, d := range ex.fc.Of("ensures") {
					if strings.Contains(d.Text, "allocs") && !opts.TrackAllocs {
						continue
					}
					vc.Oblige(fmt.Sprintf("gocvss%s.%s/post/%s/return%d", pkg, key, d.Label, k+1), "post", Implies(re.pc, post.evalBool(d.Text)))
				}
			}
		} else {
			post := &Ctx{ex: ex, fn: fn, fc: ex.fc, st: rst, old: entry, params: params, results: vals, pc: rpc}
			for _, d := range ex.fc.Of("ensures") {
				if strings.Contains(d.Text, "allocs") && !opts.TrackAllocs {
					continue
				}
				vc.Oblige(fmt.Sprintf("gocvss%s.%s/post/%s", pkg, key, d.Label), "post", Implies(rpc, post.evalBool(d.Text)))
			}
		}
	}
	return
}

// freshParam: parameters get readable symbol names (no counter) so that models can be replayed.
func (ex *Exec) freshParam(name string, t types.Type, st *State) Value {
	if s := sortOfType(t); s != "" {
		if stt, ok := t.Underlying().(*types.Struct); ok {
			sv := &StructV{T: stt, Name: structName(t)}
			ensureStructSort(sv.Name, stt)
			for i := 0; i < stt.NumFields(); i++ {
				sv.Fields = append(sv.Fields, Sym(name+"_"+stt.Field(i).Name(), sortOfType(stt.Field(i).Type())))
			}
			return sv
		}
		sym := Sym(name, s)
		if s == SStr {
			ex.vc.Assume(And(ILe(IntLit(0), strLen(sym)), ILt(strLen(sym), IntLit(1<<62)), ILe(IntLit(0), strOff(sym)), ILt(strOff(sym), IntLit(1<<62))))
		}
		return sym
	}
	switch u := t.Underlying().(type) {
	case *types.Pointer:
		a := ex.vc.NewAlloc(name, u.Elem(), true)
		a.Fresh = false
		st.mem[a] = ex.freshParam(name, u.Elem(), st)
		return &PtrV{A: a}
	case *types.Slice:
		a := ex.vc.NewAlloc(name+".arr", u.Elem(), true)
		a.Fresh = false
		st.mem[a] = &SymArrV{Arr: Sym(name+".arr", arrSortFor(u.Elem())), Elem: u.Elem()}
		l, c := Sym(name+".len", SInt), Sym(name+".cap", SInt)
		ex.vc.Assume(And(ILe(IntLit(0), l), ILe(l, c), ILt(c, IntLit(1<<62))))
		return &SliceV{Base: a, Off: IntLit(0), Len: l, Cap: c, Elem: u.Elem()}
	}
	return ex.freshValue(name, t, st)
}

// ---------- discharging ----------

var smtOutDir = "/verif/out/smt"

func slug(s string) string {
	return regexp.MustCompile(`[^A-Za-z0-9_.#-]+`).ReplaceAllString(s, "_")
}

const scriptHead = "(set-option :produce-models true)\n(set-logic ALL)\n"

// ScriptFor renders the SMT script deciding one obligation.
func ScriptFor(prelude string, assumes []*Term, goal *Term, quant bool) string {
	p := NewPrinter()
	roots := append(append([]*Term(nil), assumes...), goal)
	p.Prepare(roots...)
	var body strings.Builder
	for _, a := range assumes {
		s := p.Emit(a)
		fmt.Fprintf(&body, "(assert %s)\n", s)
	}
	g := p.Emit(Not(goal))
	// definitions must precede their uses: emit defs first, then the asserts
	var sb strings.Builder
	sb.WriteString(scriptHead)
	bodyText := p.Defs() + body.String() + g
	fp := filterPrelude(prelude, bodyText)
	if quant || strings.Contains(fp, "(assert (forall") {
		sb.WriteString("(set-option :auto_config false)\n(set-option :smt.mbqi false)\n")
	}
	sb.WriteString(fp)
	sb.WriteString(structSortDeclsExtra(prelude))
	sb.WriteString(p.Decls(nil))
	sb.WriteString(p.Defs())
	sb.WriteString(body.String())
	fmt.Fprintf(&sb, "(assert %s)\n(check-sat)\n(get-model)\n", g)
	return sb.String()
}

// filterPrelude drops axiom blocks (";;AXIOMS <key>" ... ";;END") whose key symbol does not occur in
// the obligation, so that quantifier-free obligations stay quantifier-free.
func filterPrelude(prelude, body string) string {
	var sb strings.Builder
	lines := strings.Split(prelude, "\n")
	skip := false
	for _, ln := range lines {
		if strings.HasPrefix(ln, ";;AXIOMS ") {
			keys := strings.Fields(ln)[1:]
			need := false
			for _, k := range keys {
				if strings.Contains(body, k) {
					need = true
				}
			}
			skip = !need
			continue
		}
		if strings.HasPrefix(ln, ";;END") {
			skip = false
			continue
		}
		if !skip {
			sb.WriteString(ln)
			sb.WriteByte('\n')
		}
	}
	return sb.String()
}

// struct sorts discovered after the prelude was rendered
func structSortDeclsExtra(prelude string) string {
	var sb strings.Builder
	for _, n := range structSortOrder {
		if !strings.Contains(prelude, "(declare-datatypes (("+n+" 0))") {
			si := structSorts[n]
			fmt.Fprintf(&sb, "(declare-datatypes ((%s 0)) (((mk-%s", n, n)
			for i, f := range si.Fields {
				fmt.Fprintf(&sb, " (%s.%s %s)", n, f, sortSMT(si.Sorts[i]))
			}
			sb.WriteString("))))\n")
		}
	}
	return sb.String()
}

func hasQuant(ts ...*Term) bool {
	seen := map[*Term]bool{}
	var rec func(t *Term) bool
	rec = func(t *Term) bool {
		if seen[t] {
			return false
		}
		seen[t] = true
		if t.Op == "forall" || t.Op == "exists" || t.Op == "streq" || t.Op == "arrcopy" || t.Op == "firstbyte" {
			return true
		}
		for _, a := range t.Args {
			if rec(a) {
				return true
			}
		}
		return false
	}
	for _, t := range ts {
		if rec(t) {
			return true
		}
	}
	return false
}

// Discharge decides every obligation of a function run (in parallel).
func Discharge(fr *FuncRun, timeoutS int, filter func(*Oblig) bool) []ObResult {
	var obs []*Oblig
	for _, o := range fr.PreOblig {
		obs = append(obs, o)
	}
	if fr.VC != nil {
		obs = append(obs, fr.VC.Obligs...)
	}
	var sel []*Oblig
	for _, o := range obs {
		if filter == nil || filter(o) {
			sel = append(sel, o)
		}
	}
	res := make([]ObResult, len(sel))
	var wg sync.WaitGroup
	sem := make(chan struct{}, parallelism)
	for i, o := range sel {
		wg.Add(1)
		go func(i int, o *Oblig) {
			defer wg.Done()
			sem <- struct{}{}
			defer func() { <-sem }()
			to := timeoutS
			if knownFindingObl(o.Name) && to > 8 {
				to = 8 // expected to fail: do not spend the full budget on it
			}
			res[i] = dischargeOne(fr, o, to)
		}(i, o)
	}
	wg.Wait()
	return res
}

var parallelism = 8
var termMu sync.Mutex

func dischargeOne(fr *FuncRun, o *Oblig, timeoutS int) ObResult {
	r := ObResult{Name: o.Name, Kind: o.Kind, Func: fr.Key, Pkg: fr.Pkg}
	t0 := time.Now()
	if o.Cond.IsTrue() {
		r.Status, r.Solver = "proved", "govc-simplifier"
		return r
	}
	var assumes []*Term
	if fr.VC != nil {
		assumes = fr.VC.Assumes[:o.NAssume]
		if o.Hyps != nil {
			assumes = o.Hyps
		}
	}
	termMu.Lock()
	q := hasQuant(append(append([]*Term(nil), assumes...), o.Cond)...)
	script := ScriptFor(fr.Prelude, assumes, o.Cond, q)
	termMu.Unlock()
	if len(script) > 8<<20 {
		r.Status = "undischarged"
		r.Output = fmt.Sprintf("VC too large (%d bytes)", len(script))
		return r
	}
	dir := filepath.Join(smtOutDir, slug(fr.Pkg+"."+fr.Key))
	sr := Solve(script, dir, slug(o.Name), timeoutS, nil)
	r.Seconds = time.Since(t0).Seconds()
	r.Solver = sr.Solver
	r.File = filepath.Join(dir, slug(o.Name)+".smt2")
	switch sr.Status {
	case "unsat":
		r.Status = "proved"
	case "sat":
		r.Status = "refuted"
		r.Model = sr.Output
	default:
		r.Status = "undischarged"
		r.Output = sr.Output
	}
	return r
}

var kfCache []KnownFinding
var kfLoaded bool

func knownFindingObl(name string) bool {
	if !kfLoaded {
		kfCache = loadKnownFindings()
		kfLoaded = true
	}
	for _, k := range kfCache {
		if k.Status == "open" && regexp.MustCompile(k.Obligation).MatchString(name) {
			return true
		}
	}
	return false
}

// termMuUnlockIfHeld releases termMu after a recovered panic of the (single) driver goroutine.
func termMuUnlockIfHeld() {
	if termMu.TryLock() {
		termMu.Unlock()
		return
	}
	termMu.Unlock()
}
