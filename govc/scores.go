package main

// Drivers for the scoring functions (C03, C05, C11): symbolic discharge of the bit-vector
// obligations, exhaustive case split of the floating-point ones.

import (
	"fmt"
	"path/filepath"
	"regexp"
	"strings"

	"golang.org/x/tools/go/ssa"
)

func hasFP(t *Term) bool {
	seen := map[*Term]bool{}
	var rec func(t *Term) bool
	rec = func(t *Term) bool {
		if seen[t] {
			return false
		}
		seen[t] = true
		if t.Sort == SF64 || t.Sort == SReal || strings.HasPrefix(t.Op, "fp.") || t.Op == "tenth" || t.Op == "ratingClass" || t.Op == "isTenthIn" || t.Op == "kof" {
			return true
		}
		for _, a := range t.Args {
			if rec(a) {
				return true
			}
		}
		return false
	}
	return rec(t)
}

type stage struct {
	Name   string
	Pkg    string
	Func   string
	Opts   RunOpts
	Match  string // obligations (by name regexp) that are goals of this stage
	Insts  func(fr *FuncRun, st *stageCtx) []CaseInst
	Tier   string
	Note   string
	Extra  func(fr *FuncRun, st *stageCtx) ([]*Term, []CaseGoal) // extra assumptions and goals (cuts)
	Space  string // description of the enumerated domain
	NoSafetyGoals bool // floating-point safety obligations are goals of a sibling stage
}

type stageCtx struct {
	cc      *CheckCtx
	rp      *Repr
	spec    *Spec
	calls   map[string][]callRec // by callee key
}

type callRec struct {
	ord  int
	res  Value
	pc   *Term
	call *ssa.Call
	sub  Value // replacement returned to the executor (cut symbol), if any
}

// execStage symbolically executes the function of a stage, recording its calls (cut points).
func (cc *CheckCtx) execStage(s stage, suffix string, freshBase int) (*FuncRun, *stageCtx) {
	sc := &stageCtx{cc: cc, rp: cc.W.Contr[s.Pkg].Repr, calls: map[string][]callRec{}}
	opts := s.Opts
	opts.Suffix = suffix
	opts.FreshBase = freshBase
	userHook := opts.OnCall
	opts.OnCall = func(ex *Exec, call *ssa.Call, name string, ord int, res Value, pc *Term, st *State) Value {
		rec := callRec{ord: ord, res: res, pc: pc, call: call}
		if userHook != nil {
			if r := userHook(ex, call, name, ord, res, pc, st); r != nil {
				rec.sub = r
				sc.calls[name] = append(sc.calls[name], rec)
				return r
			}
		}
		sc.calls[name] = append(sc.calls[name], rec)
		return res
	}
	fr := cc.W.RunFunc(s.Pkg, s.Func, opts)
	sc.spec = cc.W.Specs[s.Pkg]
	return fr, sc
}

func (cc *CheckCtx) runStage(s stage) {
	if s.Tier == "thorough" && cc.Tier != "thorough" {
		cc.Notes = append(cc.Notes, fmt.Sprintf("stage %s (%s) is part of the thorough tier only", s.Name, s.Space))
		return
	}
	if s.Tier == "quick" && cc.Tier == "thorough" {
		return // subset of a stage the thorough tier runs completely
	}
	sc := &stageCtx{cc: cc, rp: cc.W.Contr[s.Pkg].Repr, calls: map[string][]callRec{}}
	opts := s.Opts
	userHook := opts.OnCall
	opts.OnCall = func(ex *Exec, call *ssa.Call, name string, ord int, res Value, pc *Term, st *State) Value {
		rec := callRec{ord: ord, res: res, pc: pc, call: call}
		if userHook != nil {
			if r := userHook(ex, call, name, ord, res, pc, st); r != nil {
				rec.sub = r
				sc.calls[name] = append(sc.calls[name], rec)
				return r
			}
		}
		sc.calls[name] = append(sc.calls[name], rec)
		return res
	}
	fr := cc.W.RunFunc(s.Pkg, s.Func, opts)
	key := s.Pkg + "." + s.Func
	cc.Funcs[key] = true
	if fr.Err != "" {
		cc.funcErr(s.Pkg, s.Func, fr.Err)
		return
	}
	cc.noteWarn(fr)
	sc.spec = cc.W.Specs[s.Pkg]
	for k := range fr.VC.Inlined {
		cc.Inlined[k] = true
	}
	for k := range fr.VC.Modular {
		cc.Modular[k] = true
	}
	for k := range fr.VC.Extern {
		cc.Extern[k] = true
	}
	re := regexp.MustCompile(s.Match)
	// symbolic part: every obligation without floating point
	to := 20
	if cc.Tier == "thorough" {
		to = 120
	}
	sym := Discharge(fr, to, func(o *Oblig) bool { return !hasFP(o.Cond) && (o.Kind != "post" || re.MatchString(o.Name)) })
	for i := range sym {
		if sym[i].Status == "refuted" {
			cc.replay(fr, &sym[i])
		}
	}
	cc.Results = append(cc.Results, sym...)
	// case-split part
	var goals []CaseGoal
	assumes := append([]*Term(nil), fr.VC.Assumes...)
	for _, o := range fr.VC.Obligs {
		if hasFP(o.Cond) && (re.MatchString(o.Name) || (o.Kind == "safety" && !s.NoSafetyGoals)) {
			goals = append(goals, CaseGoal{Name: o.Name, Kind: o.Kind, Cond: o.Cond})
		}
	}
	if s.Extra != nil {
		ea, eg := s.Extra(fr, sc)
		assumes = append(assumes, ea...)
		goals = append(goals, eg...)
	}
	insts := s.Insts(fr, sc)
	res := RunCases(fr.Prelude, assumes, goals, insts, filepath.Join(smtOutDir, "cases"), slug(s.Pkg+"."+s.Func+"."+s.Name), 600)
	cc.Instances += res.Instances
	if res.ToolErr != "" {
		cc.ToolErr = append(cc.ToolErr, res.ToolErr)
	}
	if len(res.Vacuous) > 0 {
		cc.ToolErr = append(cc.ToolErr, fmt.Sprintf("stage %s: %d instances violate the assumptions (vacuous), e.g. %s", s.Name, len(res.Vacuous), res.Vacuous[0]))
	}
	stages, _ := cc.Extra["case_split_stages"].([]interface{})
	stages = append(stages, map[string]interface{}{"stage": s.Pkg + "." + s.Func + "/" + s.Name, "domain": s.Space, "instances": res.Instances, "goals_per_instance": len(goals), "solver_queries": res.SolverCalls, "decided_by_simplifier": res.BySimplifier, "seconds": res.Seconds, "exhaustive": true})
	cc.Extra["case_split_stages"] = stages
	if len(insts) > 0 {
		cc.Samples = append(cc.Samples, map[string]interface{}{"stage": s.Name, "function": key, "instance": insts[int(cc.Seed%int64(len(insts))+int64(len(insts)))%len(insts)].Label})
	}
	if cc.fpGoals == nil {
		cc.fpGoals = map[string]bool{}
	}
	for gi, g := range goals {
		gk := s.Pkg + "." + s.Func + ":" + g.Name
		if res.Skipped[gi] {
			if _, seen := cc.fpGoals[gk]; !seen {
				cc.fpGoals[gk] = false
			}
			continue
		}
		cc.fpGoals[gk] = true
		r := ObResult{Name: g.Name + "[" + s.Name + "]", Kind: g.Kind + "/case-split", Func: s.Func, Pkg: s.Pkg, Solver: "z3(ground evaluation)", Seconds: res.Seconds / float64(len(goals))}
		var bad []caseFail
		for _, f := range res.Fails {
			if f.Goal == gi {
				bad = append(bad, f)
			}
		}
		if len(bad) == 0 && res.ToolErr == "" {
			r.Status = "proved"
		} else if len(bad) == 0 {
			r.Status = "undischarged"
			r.Output = res.ToolErr
		} else {
			r.Status = "refuted"
			var ls []string
			for i, f := range bad {
				if i < 8 {
					ls = append(ls, f.Label+" ("+f.Status+")")
				}
			}
			r.Output = fmt.Sprintf("%d of %d instances fail, e.g. %s", len(bad), res.Instances, strings.Join(ls, "; "))
			// replay failing instances on the real code (up to three, until one is confirmed)
			tried := 0
			for _, b := range bad {
				if tried >= 3 || (r.Replay != nil && r.Replay.Confirmed) {
					break
				}
				for _, in := range insts {
					if in.Label == b.Label {
						tried++
						if ci, ok := concretizeInst(&res, in); ok {
							in = ci
						}
						cc.replayInstance(fr, in, &r)
						break
					}
				}
			}
		}
		cc.Results = append(cc.Results, r)
	}
	cc.Exhaustive = true
	if s.Tier == "quick" {
		cc.Subset = true
		cc.Notes = append(cc.Notes, fmt.Sprintf("quick tier: stage %s enumerates a subset (%s)", s.Name, s.Space))
	}
}

// ---------- instance generators ----------

// objInstsGround: like objInsts, but the metrics that are not enumerated are fixed at code 0 (the
// whole object is constant).  Used where the function's terms legitimately read those metrics and
// the lifting to other values is a separate (relational) obligation.
func objInstsGround(fr *FuncRun, sc *stageCtx, metrics []string, fixed map[string]int) []CaseInst {
	out := objInsts(fr, sc, metrics, fixed)
	rest := map[*Term]*Term{}
	for _, s := range receiverSyms(fr) {
		rest[restSym(s)] = BVLit(0, 8)
	}
	for i := range out {
		memo := map[*Term]*Term{}
		for k, v := range out[i].Sub {
			out[i].Sub[k] = Subst(v, rest, memo)
		}
	}
	return out
}

// fixedAt returns the code assignment that fixes the given metrics at the value val.
func fixedAt(rp *Repr, metrics []string, val string) map[string]int {
	m := map[string]int{}
	for _, x := range metrics {
		f := rp.Field(x)
		if f == nil {
			continue
		}
		for i, c := range f.Codes {
			if c == val {
				m[x] = i
			}
		}
	}
	return m
}

func objInsts(fr *FuncRun, sc *stageCtx, metrics []string, fixed map[string]int) []CaseInst {
	syms := receiverSyms(fr)
	var out []CaseInst
	order := []string{}
	for _, f := range sc.rp.Fields {
		order = append(order, f.Metric)
	}
	enumCodes(sc.rp, metrics, func(codes map[string]int) {
		for k, v := range fixed {
			codes[k] = v
		}
		b := packObject(sc.rp, codes)
		out = append(out, CaseInst{Sub: objSubP(syms, b, knownMask(sc.rp, codes)), Label: objLabel(sc.rp, codes, order)})
	})
	return out
}
