package main

// Term AST for SMT-LIB terms with hash-consing, light simplification and DAG printing.

import (
	"fmt"
	"math"
	"math/big"
	"sort"
	"strconv"
	"strings"
)

// Sort names used throughout (SMT text is produced by sortSMT).
const (
	SBool = "Bool"
	SBV8  = "BV8"
	SBV16 = "BV16"
	SBV32 = "BV32"
	SBV64 = "BV64"
	SInt  = "Int"
	SReal = "Real"
	SF64  = "F64"
	SStr  = "Str"
	SErr  = "Err"
	SArrB = "ArrB" // (Array Int BV8)  string/[]byte contents
	SArrS = "ArrS" // (Array Int Str)  []string contents
	SArrI = "ArrI" // (Array Int Int)
	SArrO = "ArrO" // (Array Int Bool)
	SUnk  = "?"    // unknown (contract text); never named
)

func sortSMT(s string) string {
	switch s {
	case SBV8:
		return "(_ BitVec 8)"
	case SBV16:
		return "(_ BitVec 16)"
	case SBV32:
		return "(_ BitVec 32)"
	case SBV64:
		return "(_ BitVec 64)"
	case SF64:
		return "(_ FloatingPoint 11 53)"
	case SArrB:
		return "(Array Int (_ BitVec 8))"
	case SArrS:
		return "(Array Int Str)"
	case SArrI:
		return "(Array Int Int)"
	case SArrO:
		return "(Array Int Bool)"
	}
	return s
}

type Term struct {
	Op   string // "sym","int","bv","bool","fp","raw" or an SMT operator / function name
	Args []*Term
	Sort string
	Name string   // sym name / raw text
	IV   *big.Int // int and bv literals
	W    int      // bv width
	B    bool     // bool literal
	F    float64  // fp literal
	id   int
}

var (
	termTab  = map[string]*Term{}
	termNext = 1
)

func intern(t *Term) *Term {
	var sb strings.Builder
	sb.WriteString(t.Op)
	sb.WriteByte('|')
	sb.WriteString(t.Sort)
	sb.WriteByte('|')
	sb.WriteString(t.Name)
	if t.IV != nil {
		sb.WriteByte('#')
		sb.WriteString(t.IV.String())
		sb.WriteByte('w')
		sb.WriteString(strconv.Itoa(t.W))
	}
	if t.Op == "bool" {
		if t.B {
			sb.WriteString("T")
		} else {
			sb.WriteString("F")
		}
	}
	if t.Op == "fp" {
		sb.WriteString(strconv.FormatUint(math.Float64bits(t.F), 16))
	}
	for _, a := range t.Args {
		sb.WriteByte(',')
		sb.WriteString(strconv.Itoa(a.id))
	}
	k := sb.String()
	if x, ok := termTab[k]; ok {
		return x
	}
	t.id = termNext
	termNext++
	termTab[k] = t
	if internLogging {
		internLog = append(internLog, k)
	}
	return t
}

// Scratch terms: terms interned between termMark and termRelease are dropped from the table again
// (used for the millions of ground instance terms of the case-split engine).
var (
	internLogging bool
	internLog     []string
)

func termMark() {
	internLogging = true
	internLog = internLog[:0]
}

func termRelease() {
	for _, k := range internLog {
		delete(termTab, k)
	}
	internLog = internLog[:0]
	internLogging = false
	if len(knownBitsMemo) > 0 {
		knownBitsMemo = map[*Term][2]uint64{}
	}
}

func Sym(name, srt string) *Term   { return intern(&Term{Op: "sym", Name: name, Sort: srt}) }
func Raw(text, srt string) *Term   { return intern(&Term{Op: "raw", Name: text, Sort: srt}) }
func IntLit(v int64) *Term         { return intern(&Term{Op: "int", Sort: SInt, IV: big.NewInt(v)}) }
func IntLitB(v *big.Int) *Term     { return intern(&Term{Op: "int", Sort: SInt, IV: new(big.Int).Set(v)}) }
func BoolLit(b bool) *Term         { return intern(&Term{Op: "bool", Sort: SBool, B: b}) }
func FPLit(f float64) *Term        { return intern(&Term{Op: "fp", Sort: SF64, F: f}) }
func App(op, srt string, a ...*Term) *Term {
	return intern(&Term{Op: op, Sort: srt, Args: append([]*Term(nil), a...)})
}
func BVLit(v uint64, w int) *Term {
	iv := new(big.Int).SetUint64(v)
	if w < 64 {
		iv.And(iv, new(big.Int).SetUint64((1<<uint(w))-1))
	}
	return intern(&Term{Op: "bv", Sort: bvSort(w), IV: iv, W: w})
}

var (
	True  = BoolLit(true)
	False = BoolLit(false)
)

func (t *Term) IsConst() bool {
	switch t.Op {
	case "int", "bv", "bool", "fp":
		return true
	}
	return false
}
func (t *Term) IsTrue() bool  { return t.Op == "bool" && t.B }
func (t *Term) IsFalse() bool { return t.Op == "bool" && !t.B }

// ---------- simplifying constructors ----------

func Not(a *Term) *Term {
	if a.Op == "bool" {
		return BoolLit(!a.B)
	}
	if a.Op == "not" {
		return a.Args[0]
	}
	return App("not", SBool, a)
}

func And(as ...*Term) *Term {
	var out []*Term
	seen := map[int]bool{}
	for _, a := range as {
		if a.IsFalse() {
			return False
		}
		if a.IsTrue() || seen[a.id] {
			continue
		}
		if a.Op == "and" {
			for _, b := range a.Args {
				if !seen[b.id] {
					seen[b.id] = true
					out = append(out, b)
				}
			}
			continue
		}
		seen[a.id] = true
		out = append(out, a)
	}
	for _, a := range out {
		if a.Op == "not" && seen[a.Args[0].id] {
			return False
		}
	}
	if len(out) == 0 {
		return True
	}
	if len(out) == 1 {
		return out[0]
	}
	return App("and", SBool, out...)
}

func Or(as ...*Term) *Term {
	var out []*Term
	seen := map[int]bool{}
	for _, a := range as {
		if a.IsTrue() {
			return True
		}
		if a.IsFalse() || seen[a.id] {
			continue
		}
		if a.Op == "or" {
			for _, b := range a.Args {
				if !seen[b.id] {
					seen[b.id] = true
					out = append(out, b)
				}
			}
			continue
		}
		seen[a.id] = true
		out = append(out, a)
	}
	for _, a := range out {
		if a.Op == "not" && seen[a.Args[0].id] {
			return True
		}
	}
	if len(out) == 0 {
		return False
	}
	if len(out) == 1 {
		return out[0]
	}
	// (a and c) or (a and not c)  ==>  a      (joins after an if)
	for i := 0; i < len(out); i++ {
		for j := i + 1; j < len(out); j++ {
			if m := mergeComplement(out[i], out[j]); m != nil {
				rest := append([]*Term{m}, out[:i]...)
				rest = append(rest, out[i+1:j]...)
				rest = append(rest, out[j+1:]...)
				return Or(rest...)
			}
		}
	}
	return App("or", SBool, out...)
}

func conjuncts(t *Term) []*Term {
	if t.Op == "and" {
		return t.Args
	}
	return []*Term{t}
}

func mergeComplement(a, b *Term) *Term {
	ca, cb := conjuncts(a), conjuncts(b)
	if len(ca) != len(cb) {
		return nil
	}
	inB := map[int]bool{}
	for _, x := range cb {
		inB[x.id] = true
	}
	var onlyA *Term
	for _, x := range ca {
		if !inB[x.id] {
			if onlyA != nil {
				return nil
			}
			onlyA = x
		}
	}
	if onlyA == nil {
		return nil
	}
	comp := Not(onlyA)
	if !inB[comp.id] {
		return nil
	}
	var common []*Term
	for _, x := range ca {
		if x != onlyA {
			common = append(common, x)
		}
	}
	return And(common...)
}

func Implies(a, b *Term) *Term {
	if a.IsTrue() {
		return b
	}
	if a.IsFalse() || b.IsTrue() {
		return True
	}
	if b.IsFalse() {
		return Not(a)
	}
	return App("=>", SBool, a, b)
}

func Ite(c, a, b *Term) *Term {
	if c.IsTrue() {
		return a
	}
	if c.IsFalse() {
		return b
	}
	if a == b {
		return a
	}
	if a.Sort == SBool {
		if a.IsTrue() && b.IsFalse() {
			return c
		}
		if a.IsFalse() && b.IsTrue() {
			return Not(c)
		}
		if a.IsTrue() {
			return Or(c, b)
		}
		if b.IsFalse() {
			return And(c, a)
		}
	}
	if c.Op == "not" {
		return Ite(c.Args[0], b, a)
	}
	// the branches may use the condition: ite(c, ite(c,x,y), z) = ite(c,x,z); conjuncts equal to c
	// (or to its negation) inside a nested condition are resolved (two levels)
	if c.Op != "ite" {
		a2, b2 := assumeCond(a, c, true, 2), assumeCond(b, c, false, 2)
		if a2 != a || b2 != b {
			return Ite(c, a2, b2)
		}
	}
	srt := a.Sort
	if srt == SUnk {
		srt = b.Sort
	}
	return App("ite", srt, c, a, b)
}

// assumeCond simplifies the ite structure at the top of t under the assumption c == val.
func assumeCond(t, c *Term, val bool, depth int) *Term {
	if depth == 0 || t.Op != "ite" {
		return t
	}
	k := t.Args[0]
	res := condUnder(k, c, val)
	if res == k {
		x, y := assumeCond(t.Args[1], c, val, depth-1), assumeCond(t.Args[2], c, val, depth-1)
		if x == t.Args[1] && y == t.Args[2] {
			return t
		}
		return Ite(k, x, y)
	}
	if res.IsTrue() {
		return assumeCond(t.Args[1], c, val, depth-1)
	}
	if res.IsFalse() {
		return assumeCond(t.Args[2], c, val, depth-1)
	}
	return Ite(res, assumeCond(t.Args[1], c, val, depth-1), assumeCond(t.Args[2], c, val, depth-1))
}

// condUnder rewrites the condition k given c == val: k itself, its negation, or a conjunction
// containing c / (not c).
func condUnder(k, c *Term, val bool) *Term {
	if k == c {
		return BoolLit(val)
	}
	if k.Op == "not" && k.Args[0] == c {
		return BoolLit(!val)
	}
	if k.Op == "and" {
		var rest []*Term
		changed := false
		for _, x := range k.Args {
			switch {
			case x == c:
				if !val {
					return False
				}
				changed = true
			case x.Op == "not" && x.Args[0] == c:
				if val {
					return False
				}
				changed = true
			default:
				rest = append(rest, x)
			}
		}
		if changed {
			return And(rest...)
		}
	}
	return k
}

func constEq(a, b *Term) (bool, bool) {
	if !a.IsConst() || !b.IsConst() || a.Op != b.Op {
		return false, false
	}
	switch a.Op {
	case "int", "bv":
		return a.IV.Cmp(b.IV) == 0, true
	case "bool":
		return a.B == b.B, true
	}
	return false, false // fp: leave to the solver (NaN, +-0)
}

func Eq(a, b *Term) *Term {
	if a == b && a.Sort != SF64 {
		return True
	}
	if a == b {
		return True // structural = on FP (SMT-LIB '=') is reflexive
	}
	if v, ok := constEq(a, b); ok {
		return BoolLit(v)
	}
	// known bits that differ from a literal decide a disequality
	if isBVSort(a.Sort) && (a.Op == "bv") != (b.Op == "bv") {
		x, l := a, b
		if a.Op == "bv" {
			x, l = b, a
		}
		if widthOf(x) <= 64 && l.IV.IsUint64() {
			if km, kv := knownBits(x, 0); km != 0 && (kv^l.IV.Uint64())&km != 0 {
				return False
			}
		}
	}
	if a.Sort == SBool {
		if a.IsTrue() {
			return b
		}
		if b.IsTrue() {
			return a
		}
		if a.IsFalse() {
			return Not(b)
		}
		if b.IsFalse() {
			return Not(a)
		}
	}
	// push equality with a constant through ite trees whose leaves are constants
	if b.IsConst() && a.Op == "ite" && iteLeavesConst(a, 64) {
		return Ite(a.Args[0], Eq(a.Args[1], b), Eq(a.Args[2], b))
	}
	if a.IsConst() && b.Op == "ite" && iteLeavesConst(b, 64) {
		return Ite(b.Args[0], Eq(a, b.Args[1]), Eq(a, b.Args[2]))
	}
	if a.Op == "i2f" || b.Op == "i2f" {
		if eqIntFloat != nil {
			if r := eqIntFloat(a, b); r != nil {
				return r
			}
		}
	}
	// datatype constructors
	if a.Op == b.Op && isCtor(a.Op) && len(a.Args) == len(b.Args) {
		var cs []*Term
		for i := range a.Args {
			cs = append(cs, Eq(a.Args[i], b.Args[i]))
		}
		return And(cs...)
	}
	if a.id > b.id {
		a, b = b, a
	}
	return App("=", SBool, a, b)
}

func iteLeavesConst(t *Term, budget int) bool {
	if budget <= 0 {
		return false
	}
	if t.Op == "ite" {
		return iteLeavesConst(t.Args[1], budget/2) && iteLeavesConst(t.Args[2], budget/2)
	}
	return t.IsConst()
}

// eqIntFloat compares two integer-valued float terms on their integers (set by the executor).
var eqIntFloat func(a, b *Term) *Term

var ctorTab = map[string][]string{} // constructor -> accessor names
var accTab = map[string]struct {
	ctor string
	idx  int
}{}

func registerCtor(ctor string, accs ...string) {
	ctorTab[ctor] = accs
	for i, a := range accs {
		accTab[a] = struct {
			ctor string
			idx  int
		}{ctor, i}
	}
}
func isCtor(op string) bool { _, ok := ctorTab[op]; return ok }

// Acc applies a datatype accessor, folding over constructors and ite.
func Acc(acc, srt string, a *Term) *Term {
	if info, ok := accTab[acc]; ok {
		if a.Op == info.ctor {
			return a.Args[info.idx]
		}
		if a.Op == "ite" && (a.Args[1].Op == info.ctor || a.Args[2].Op == info.ctor || a.Args[1].Op == "ite" || a.Args[2].Op == "ite") {
			return Ite(a.Args[0], Acc(acc, srt, a.Args[1]), Acc(acc, srt, a.Args[2]))
		}
	}
	return App(acc, srt, a)
}

// ---------- integers (mathematical) ----------

func IAdd(a, b *Term) *Term {
	if a.Op == "int" && b.Op == "int" {
		return IntLitB(new(big.Int).Add(a.IV, b.IV))
	}
	if a.Op == "int" && a.IV.Sign() == 0 {
		return b
	}
	if b.Op == "int" && b.IV.Sign() == 0 {
		return a
	}
	// (x + c1) + c2
	if b.Op == "int" && a.Op == "+" && len(a.Args) == 2 && a.Args[1].Op == "int" {
		return IAdd(a.Args[0], IntLitB(new(big.Int).Add(a.Args[1].IV, b.IV)))
	}
	if a.Op == "int" {
		a, b = b, a
	}
	return App("+", SInt, a, b)
}
func ISub(a, b *Term) *Term {
	if b.Op == "int" {
		return IAdd(a, IntLitB(new(big.Int).Neg(b.IV)))
	}
	if a == b {
		return IntLit(0)
	}
	// (x + c) - x
	if a.Op == "+" && len(a.Args) == 2 && a.Args[0] == b {
		return a.Args[1]
	}
	return App("-", SInt, a, b)
}
func IMul(a, b *Term) *Term {
	if a.Op == "int" && b.Op == "int" {
		return IntLitB(new(big.Int).Mul(a.IV, b.IV))
	}
	return App("*", SInt, a, b)
}
func ILt(a, b *Term) *Term {
	if a.Op == "int" && b.Op == "int" {
		return BoolLit(a.IV.Cmp(b.IV) < 0)
	}
	if a == b {
		return False
	}
	return App("<", SBool, a, b)
}
func ILe(a, b *Term) *Term {
	if a.Op == "int" && b.Op == "int" {
		return BoolLit(a.IV.Cmp(b.IV) <= 0)
	}
	if a == b {
		return True
	}
	return App("<=", SBool, a, b)
}

// Go's truncated division / remainder on mathematical ints.
func IQuo(a, b *Term) *Term {
	if a.Op == "int" && b.Op == "int" && b.IV.Sign() != 0 {
		return IntLitB(new(big.Int).Quo(a.IV, b.IV))
	}
	// truncated: sign-correct using SMT floor/euclid div
	q := App("div", SInt, App("abs", SInt, a), App("abs", SInt, b))
	neg := App("xor", SBool, ILt(a, IntLit(0)), ILt(b, IntLit(0)))
	return Ite(neg, App("-", SInt, q), q)
}
func IRem(a, b *Term) *Term {
	if a.Op == "int" && b.Op == "int" && b.IV.Sign() != 0 {
		return IntLitB(new(big.Int).Rem(a.IV, b.IV))
	}
	r := App("mod", SInt, App("abs", SInt, a), App("abs", SInt, b))
	return Ite(ILt(a, IntLit(0)), App("-", SInt, r), r)
}

// ---------- bit-vectors ----------

func bvSort(w int) string {
	switch w {
	case 16:
		return SBV16
	case 32:
		return SBV32
	case 64:
		return SBV64
	}
	return SBV8
}
func isBVSort(s string) bool { return s == SBV8 || s == SBV16 || s == SBV32 || s == SBV64 }
func mask(w int) *big.Int {
	m := new(big.Int).Lsh(big.NewInt(1), uint(w))
	return m.Sub(m, big.NewInt(1))
}
func bvlit(v *big.Int, w int) *Term {
	x := new(big.Int).And(v, mask(w))
	return intern(&Term{Op: "bv", Sort: bvSort(w), IV: x, W: w})
}
func widthOf(t *Term) int {
	switch t.Sort {
	case SBV16:
		return 16
	case SBV32:
		return 32
	case SBV64:
		return 64
	}
	return 8
}

func BVBin(op string, a, b *Term) *Term {
	w := widthOf(a)
	if a.Op == "bv" && b.Op == "bv" {
		x, y := a.IV, b.IV
		r := new(big.Int)
		switch op {
		case "bvand":
			return bvlit(r.And(x, y), w)
		case "bvor":
			return bvlit(r.Or(x, y), w)
		case "bvxor":
			return bvlit(r.Xor(x, y), w)
		case "bvadd":
			return bvlit(r.Add(x, y), w)
		case "bvsub":
			return bvlit(r.Sub(x, y), w)
		case "bvmul":
			return bvlit(r.Mul(x, y), w)
		case "bvshl":
			if y.Cmp(big.NewInt(int64(w))) >= 0 {
				return bvlit(big.NewInt(0), w)
			}
			return bvlit(r.Lsh(x, uint(y.Int64())), w)
		case "bvlshr":
			if y.Cmp(big.NewInt(int64(w))) >= 0 {
				return bvlit(big.NewInt(0), w)
			}
			return bvlit(r.Rsh(x, uint(y.Int64())), w)
		case "bvudiv":
			if y.Sign() != 0 {
				return bvlit(r.Quo(x, y), w)
			}
		case "bvurem":
			if y.Sign() != 0 {
				return bvlit(r.Rem(x, y), w)
			}
		}
	}
	if op == "bvor" {
		if a.Op == "bv" && a.IV.Sign() == 0 {
			return b
		}
		if b.Op == "bv" && b.IV.Sign() == 0 {
			return a
		}
	}
	if op == "bvand" {
		if (a.Op == "bv" && a.IV.Sign() == 0) || (b.Op == "bv" && b.IV.Sign() == 0) {
			return bvlit(big.NewInt(0), w)
		}
	}
	if (op == "bvshl" || op == "bvlshr") && b.Op == "bv" && b.IV.Sign() == 0 {
		return a
	}
	// push through ite with constant leaves when the other side is constant
	if b.Op == "bv" && a.Op == "ite" && iteLeavesConst(a, 64) {
		return Ite(a.Args[0], BVBin(op, a.Args[1], b), BVBin(op, a.Args[2], b))
	}
	r := App(op, a.Sort, a, b)
	// known-bits folding: (C | (x & ~K)) & M with M inside K is the constant C & M, etc.
	if op == "bvand" || op == "bvor" || op == "bvlshr" || op == "bvshl" || op == "bvxor" {
		if km, kv := knownBits(r, 0); km == maskU(w) {
			return BVLit(kv, w)
		}
	}
	return r
}

func maskU(w int) uint64 {
	if w >= 64 {
		return ^uint64(0)
	}
	return (uint64(1) << uint(w)) - 1
}

var knownBitsMemo = map[*Term][2]uint64{}

// knownBits returns (mask, value): the bits of a bit-vector term whose value is the same under every
// assignment, computed structurally (and, or, xor, not, shifts by constants, zero extension).
func knownBits(t *Term, depth int) (uint64, uint64) {
	w := widthOf(t)
	full := maskU(w)
	if t.Op == "bv" {
		return full, t.IV.Uint64() & full
	}
	if depth > 12 || len(t.Args) == 0 {
		return 0, 0
	}
	if r, ok := knownBitsMemo[t]; ok {
		return r[0], r[1]
	}
	var km, kv uint64
	switch t.Op {
	case "bvand":
		am, av := knownBits(t.Args[0], depth+1)
		bm, bv := knownBits(t.Args[1], depth+1)
		zero := (am &^ av) | (bm &^ bv)
		one := (am & av) & (bm & bv)
		km, kv = zero|one, one
	case "bvor":
		am, av := knownBits(t.Args[0], depth+1)
		bm, bv := knownBits(t.Args[1], depth+1)
		one := (am & av) | (bm & bv)
		zero := (am &^ av) & (bm &^ bv)
		km, kv = zero|one, one
	case "bvxor":
		am, av := knownBits(t.Args[0], depth+1)
		bm, bv := knownBits(t.Args[1], depth+1)
		km = am & bm
		kv = (av ^ bv) & km
	case "bvnot":
		am, av := knownBits(t.Args[0], depth+1)
		km, kv = am, ^av&am
	case "bvshl", "bvlshr":
		if t.Args[1].Op == "bv" && t.Args[1].IV.IsUint64() {
			n := t.Args[1].IV.Uint64()
			am, av := knownBits(t.Args[0], depth+1)
			if n >= uint64(w) {
				km, kv = full, 0
			} else if t.Op == "bvshl" {
				km = ((am << n) | maskU(int(n))) & full
				kv = (av << n) & full
			} else {
				km = ((am >> n) | (full &^ (full >> n))) & full
				kv = av >> n
			}
		}
	default:
		if strings.HasPrefix(t.Op, "(_ zero_extend") {
			wa := widthOf(t.Args[0])
			am, av := knownBits(t.Args[0], depth+1)
			km = am | (full &^ maskU(wa))
			kv = av
		}
	}
	km &= full
	kv &= km
	knownBitsMemo[t] = [2]uint64{km, kv}
	return km, kv
}

func BVCmp(op string, a, b *Term) *Term { // bvult bvule bvslt bvsle
	if a.Op == "bv" && b.Op == "bv" {
		w := widthOf(a)
		x, y := new(big.Int).Set(a.IV), new(big.Int).Set(b.IV)
		if op == "bvslt" || op == "bvsle" {
			half := new(big.Int).Lsh(big.NewInt(1), uint(w-1))
			full := new(big.Int).Lsh(big.NewInt(1), uint(w))
			if x.Cmp(half) >= 0 {
				x.Sub(x, full)
			}
			if y.Cmp(half) >= 0 {
				y.Sub(y, full)
			}
		}
		c := x.Cmp(y)
		switch op {
		case "bvult", "bvslt":
			return BoolLit(c < 0)
		default:
			return BoolLit(c <= 0)
		}
	}
	if b.IsConst() && a.Op == "ite" && iteLeavesConst(a, 64) {
		return Ite(a.Args[0], BVCmp(op, a.Args[1], b), BVCmp(op, a.Args[2], b))
	}
	return App(op, SBool, a, b)
}

// ---------- arrays ----------

func Select(arr, idx *Term, elemSort string) *Term {
	// fold over store chains with concrete indices
	a := arr
	for a.Op == "store" {
		i := a.Args[1]
		if i == idx {
			return a.Args[2]
		}
		if i.Op == "int" && idx.Op == "int" {
			a = a.Args[0]
			continue
		}
		break
	}
	if a.Op == "constarr" {
		return a.Args[0]
	}
	if a.Op == "ite" && (a.Args[1].Op == "store" || a.Args[1].Op == "constarr") && (a.Args[2].Op == "store" || a.Args[2].Op == "constarr") && idx.Op == "int" {
		return Ite(a.Args[0], Select(a.Args[1], idx, elemSort), Select(a.Args[2], idx, elemSort))
	}
	return App("select", elemSort, a, idx)
}
func Store(arr, idx, v *Term) *Term { return App("store", arr.Sort, arr, idx, v) }
func ConstArr(srt string, v *Term) *Term {
	return App("constarr", srt, v)
}

// ---------- substitution ----------

func Subst(t *Term, m map[*Term]*Term, memo map[*Term]*Term) *Term {
	if r, ok := m[t]; ok {
		return r
	}
	if len(t.Args) == 0 {
		return t
	}
	if r, ok := memo[t]; ok {
		return r
	}
	changed := false
	na := make([]*Term, len(t.Args))
	for i, a := range t.Args {
		na[i] = Subst(a, m, memo)
		if na[i] != a {
			changed = true
		}
	}
	r := t
	if changed {
		r = rebuild(t, na)
	}
	memo[t] = r
	return r
}

// rebuild re-applies simplifying constructors after substitution.
func rebuild(t *Term, a []*Term) *Term {
	switch t.Op {
	case "not":
		return Not(a[0])
	case "and":
		return And(a...)
	case "or":
		return Or(a...)
	case "=>":
		return Implies(a[0], a[1])
	case "ite":
		return Ite(a[0], a[1], a[2])
	case "=":
		return Eq(a[0], a[1])
	case "+":
		if len(a) == 2 && t.Sort == SInt {
			return IAdd(a[0], a[1])
		}
	case "-":
		if len(a) == 2 && t.Sort == SInt {
			return ISub(a[0], a[1])
		}
	case "<":
		if len(a) == 2 && a[0].Sort == SInt {
			return ILt(a[0], a[1])
		}
	case "<=":
		if len(a) == 2 && a[0].Sort == SInt {
			return ILe(a[0], a[1])
		}
	case "bvand", "bvor", "bvxor", "bvadd", "bvsub", "bvmul", "bvshl", "bvlshr", "bvudiv", "bvurem":
		return BVBin(t.Op, a[0], a[1])
	case "bvult", "bvule", "bvslt", "bvsle":
		return BVCmp(t.Op, a[0], a[1])
	case "select":
		return Select(a[0], a[1], t.Sort)
	case "i2f":
		if a[0].Op == "int" && a[0].IV.IsInt64() {
			return FPLit(float64(a[0].IV.Int64()))
		}
	}
	if _, ok := accTab[t.Op]; ok && len(a) == 1 {
		return Acc(t.Op, t.Sort, a[0])
	}
	return App(t.Op, t.Sort, a...)
}

// ---------- printing ----------

func fpLitSMT(f float64) string {
	b := math.Float64bits(f)
	return fmt.Sprintf("(fp #b%01b #b%011b #b%052b)", b>>63, (b>>52)&0x7ff, b&((1<<52)-1))
}

func (t *Term) leafSMT() (string, bool) {
	switch t.Op {
	case "sym", "raw", "bvar":
		return t.Name, true
	case "int":
		if t.IV.Sign() < 0 {
			return "(- " + new(big.Int).Neg(t.IV).String() + ")", true
		}
		return t.IV.String(), true
	case "bv":
		return fmt.Sprintf("#x%0*x", t.W/4, t.IV.Uint64()), true
	case "bool":
		if t.B {
			return "true", true
		}
		return "false", true
	case "fp":
		return fpLitSMT(t.F), true
	}
	return "", false
}

// Printer emits a set of terms as a DAG: shared non-leaf nodes of known sort become define-funs.
type Printer struct {
	AbsFP   bool              // print floating-point operations as uninterpreted functions
	ufDecls map[string]string // uf name -> declaration
	refs  map[*Term]int
	names map[*Term]string
	defs  []string
	syms  map[string]string // declared symbols name->sort
	bv    map[*Term]bool
	order []string
}

func NewPrinter() *Printer {
	return &Printer{refs: map[*Term]int{}, names: map[*Term]string{}, syms: map[string]string{}}
}

func (p *Printer) count(t *Term) {
	p.refs[t]++
	if p.refs[t] > 1 {
		return
	}
	for _, a := range t.Args {
		p.count(a)
	}
}

// Prepare must be called with every root before Emit.
func (p *Printer) Prepare(roots ...*Term) {
	for _, r := range roots {
		p.count(r)
	}
}

func opSMT(t *Term) string {
	switch t.Op {
	case "i2f":
		return "i2f"
	case "constarr":
		return "(as const " + sortSMT(t.Sort) + ")"
	}
	return t.Op
}

func (p *Printer) Emit(t *Term) string {
	if s, ok := t.leafSMT(); ok {
		if t.Op == "sym" {
			if _, ok := p.syms[t.Name]; !ok {
				p.syms[t.Name] = t.Sort
				p.order = append(p.order, t.Name)
			}
		}
		return s
	}
	if n, ok := p.names[t]; ok {
		return n
	}
	var sb strings.Builder
	if len(t.Args) == 0 {
		return opSMT(t)
	}
	sb.WriteByte('(')
	if p.AbsFP && isFPOp(t) {
		sb.WriteString(p.ufName(t))
	} else {
		sb.WriteString(opSMT(t))
	}
	for _, a := range t.Args {
		sb.WriteByte(' ')
		sb.WriteString(p.Emit(a))
	}
	sb.WriteByte(')')
	s := sb.String()
	if p.refs[t] > 1 && t.Sort != SUnk && len(s) > 24 && !p.hasBVar(t) {
		n := fmt.Sprintf("n!%d", t.id)
		p.defs = append(p.defs, fmt.Sprintf("(define-fun %s () %s %s)", n, sortSMT(t.Sort), s))
		p.names[t] = n
		return n
	}
	return s
}

func (p *Printer) hasBVar(t *Term) bool {
	if p.bv == nil {
		p.bv = map[*Term]bool{}
	}
	if v, ok := p.bv[t]; ok {
		return v
	}
	r := t.Op == "bvar"
	for _, a := range t.Args {
		if p.hasBVar(a) {
			r = true
		}
	}
	p.bv[t] = r
	return r
}

// Decls returns declare-const lines for all symbols met so far (stable order), excluding 'skip'.
func (p *Printer) Decls(skip map[string]bool) string {
	var sb strings.Builder
	names := append([]string(nil), p.order...)
	sort.Strings(names)
	for _, n := range names {
		if skip != nil && skip[n] {
			continue
		}
		fmt.Fprintf(&sb, "(declare-const %s %s)\n", n, sortSMT(p.syms[n]))
	}
	return sb.String()
}
func (p *Printer) Defs() string { return strings.Join(p.defs, "\n") + "\n" }

// FreeSyms lists the symbol leaves of t.
func FreeSyms(t *Term, acc map[*Term]bool, seen map[*Term]bool) {
	if seen[t] {
		return
	}
	seen[t] = true
	if t.Op == "sym" {
		acc[t] = true
	}
	for _, a := range t.Args {
		FreeSyms(a, acc, seen)
	}
}

func isFPOp(t *Term) bool {
	if strings.HasPrefix(t.Op, "fp.") || t.Op == "gomin" || t.Op == "gomax" || strings.HasPrefix(t.Op, "(_ to_fp") || t.Op == "tenth" {
		return true
	}
	return false
}

func (p *Printer) ufName(t *Term) string {
	name := "uf!" + strings.Map(func(r rune) rune {
		if r >= 'a' && r <= 'z' || r >= 'A' && r <= 'Z' || r >= '0' && r <= '9' {
			return r
		}
		return '_'
	}, t.Op)
	var as []string
	for _, a := range t.Args {
		as = append(as, sortSMT(a.Sort))
		name += "_" + strings.Map(func(r rune) rune {
			if r >= 'a' && r <= 'z' || r >= 'A' && r <= 'Z' || r >= '0' && r <= '9' {
				return r
			}
			return -1
		}, a.Sort)
	}
	if p.ufDecls == nil {
		p.ufDecls = map[string]string{}
	}
	p.ufDecls[name] = fmt.Sprintf("(declare-fun %s (%s) %s)", name, strings.Join(as, " "), sortSMT(t.Sort))
	return name
}

func (p *Printer) UFDecls() string {
	var ns []string
	for n := range p.ufDecls {
		ns = append(ns, n)
	}
	sort.Strings(ns)
	var sb strings.Builder
	for _, n := range ns {
		sb.WriteString(p.ufDecls[n])
		sb.WriteByte('\n')
	}
	return sb.String()
}
