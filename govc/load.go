package main

// Front end: copy /repo's working tree to a scratch directory, load the four packages with
// go/packages (build tag verif), build SSA.  Nothing is ever written to /repo.

import (
	"fmt"
	"go/ast"
	"go/token"
	"os"
	"os/exec"
	"path/filepath"
	"strings"

	"golang.org/x/tools/go/packages"
	"golang.org/x/tools/go/ssa"
	"golang.org/x/tools/go/ssa/ssautil"
)

type World struct {
	Scratch string // scratch root (contains repo/)
	RepoDir string // scratch copy of the repository
	Fset    *token.FileSet
	Prog    *ssa.Program
	Pkgs    map[string]*ssa.Package      // "20","30","31","40"
	PPkgs   map[string]*packages.Package // same keys
	Contr   map[string]*PkgContracts
	funcs   map[string]*ssa.Function
	preludes   map[string]string
	preludeObl map[string][]*Oblig
	Specs      map[string]*Spec
	gstates    map[string]*gstate
	escapes    map[string]map[string]string
}

var repoRoot = envOr("GOVC_REPO", "/repo")

func goEnv() []string {
	env := os.Environ()
	env = append(env, "GOWORK=off", "GOFLAGS=-mod=mod", "GOPROXY=off", "GOSUMDB=off", "GOTOOLCHAIN=local", "CGO_ENABLED=0")
	return env
}

func makeScratch() (string, error) {
	base := os.Getenv("GOVC_TMP")
	if base == "" {
		base = os.TempDir()
	}
	dir, err := os.MkdirTemp(base, "govc-")
	if err != nil {
		return "", err
	}
	cmd := exec.Command("rsync", "-a", "--exclude", ".git", "--exclude", "res", "--exclude", "benchmarks", repoRoot+"/", filepath.Join(dir, "repo")+"/")
	if out, err := cmd.CombinedOutput(); err != nil {
		os.RemoveAll(dir)
		return "", fmt.Errorf("rsync: %v: %s", err, out)
	}
	return dir, nil
}

func LoadWorld() (*World, error) {
	scratch, err := makeScratch()
	if err != nil {
		return nil, err
	}
	w := &World{Scratch: scratch, RepoDir: filepath.Join(scratch, "repo"), Pkgs: map[string]*ssa.Package{}, PPkgs: map[string]*packages.Package{}, Contr: map[string]*PkgContracts{}, preludes: map[string]string{}, preludeObl: map[string][]*Oblig{}, Specs: map[string]*Spec{}, gstates: map[string]*gstate{}}
	w.Fset = token.NewFileSet()
	cfg := &packages.Config{
		Mode:       packages.LoadAllSyntax,
		Dir:        w.RepoDir,
		Env:        goEnv(),
		Fset:       w.Fset,
		BuildFlags: []string{"-tags=verif"},
		Tests:      false,
	}
	pkgs, err := packages.Load(cfg, "./20", "./30", "./31", "./40")
	if err != nil {
		return w, err
	}
	if packages.PrintErrors(pkgs) > 0 {
		return w, fmt.Errorf("packages: load errors (the tree does not compile)")
	}
	prog, spkgs := ssautil.AllPackages(pkgs, ssa.GlobalDebug|ssa.InstantiateGenerics)
	prog.Build()
	w.Prog = prog
	for i, p := range pkgs {
		key := filepath.Base(p.PkgPath)
		w.Pkgs[key] = spkgs[i]
		w.PPkgs[key] = p
		pc, err := parseContracts(w, key, p)
		if err != nil {
			return w, err
		}
		w.Contr[key] = pc
	}
	return w, nil
}

func (w *World) Close() {
	if w != nil && w.Scratch != "" && os.Getenv("GOVC_KEEP") == "" {
		os.RemoveAll(w.Scratch)
	}
}

// Func finds a function or method by its contract key: "ParseVector", "(*CVSS31).Set", "(CVSS31).Get".
func (w *World) Func(pkg, key string) *ssa.Function {
	if w.funcs == nil {
		w.funcs = map[string]*ssa.Function{}
		for fn := range ssautil.AllFunctions(w.Prog) {
			if fn.Pkg == nil || fn.Synthetic != "" {
				continue
			}
			w.funcs[pkgKeyOf(fn)+"."+FuncKey(fn)] = fn
		}
	}
	return w.funcs[pkg+"."+key]
}

// FuncKey is the inverse of Func: the contract key of an ssa.Function.
func FuncKey(fn *ssa.Function) string {
	if fn.Signature.Recv() != nil {
		rt := fn.Signature.Recv().Type().String()
		// strip package path
		ptr := strings.HasPrefix(rt, "*")
		rt = strings.TrimPrefix(rt, "*")
		if i := strings.LastIndex(rt, "."); i >= 0 {
			rt = rt[i+1:]
		}
		if ptr {
			rt = "*" + rt
		}
		return "(" + rt + ")." + fn.Name()
	}
	return fn.Name()
}

func pkgKeyOf(fn *ssa.Function) string {
	if fn.Pkg == nil {
		return ""
	}
	return filepath.Base(fn.Pkg.Pkg.Path())
}

// source-level names of local variables: map from types.Object name -> ssa values (via DebugRef).
func debugNames(fn *ssa.Function) map[string][]ssa.Value {
	m := map[string][]ssa.Value{}
	for _, b := range fn.Blocks {
		for _, ins := range b.Instrs {
			if d, ok := ins.(*ssa.DebugRef); ok {
				if id, ok := d.Expr.(*ast.Ident); ok {
					m[id.Name] = append(m[id.Name], d.X)
				}
			}
		}
	}
	return m
}

func envOr(k, d string) string {
	if v := os.Getenv(k); v != "" {
		return v
	}
	return d
}
