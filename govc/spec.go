package main

// Specification tables (/verif/spec/vNN.spec) and generation of the per-package SMT prelude from
// the spec tables and the representation function declared in the repository's contract file.

import (
	"fmt"
	"go/types"
	"os"
	"path/filepath"
	"sort"
	"strings"
)

var specDir = "/verif/spec"

type SpecMetric struct {
	Name      string
	Mandatory bool
	Values    []string // specification order; for optional metrics Values[0] is the not-defined value
}

type SpecWeight struct {
	Name   string
	Metric string
	W      map[string]string
}

type Spec struct {
	Severity map[string][]string
	Presence string // "metric": an optional metric is written iff it is defined; "group": its whole group is written iff any member is defined
	Weights  []SpecWeight
	Modifies [][2]string
	Version string
	Type    string
	Header  string
	ND      string
	Metrics []SpecMetric
	Groups  map[string][]string
	GOrder  []string
}

func (s *Spec) Index(name string) int {
	for i, m := range s.Metrics {
		if m.Name == name {
			return i
		}
	}
	return -1
}

func loadSpec(ver string) (*Spec, error) {
	data, err := os.ReadFile(filepath.Join(specDir, "v"+ver+".spec"))
	if err != nil {
		return nil, err
	}
	s := &Spec{Groups: map[string][]string{}}
	for _, ln := range strings.Split(string(data), "\n") {
		if i := strings.Index(ln, "#"); i >= 0 {
			ln = ln[:i]
		}
		f := strings.Fields(ln)
		if len(f) == 0 {
			continue
		}
		switch f[0] {
		case "version":
			s.Version = f[1]
		case "type":
			s.Type = f[1]
		case "header":
			s.Header = strings.Trim(f[1], "\"")
		case "notdefined":
			s.ND = f[1]
		case "group":
			s.Groups[f[1]] = f[2:]
			s.GOrder = append(s.GOrder, f[1])
		case "severity":
			if s.Severity == nil {
				s.Severity = map[string][]string{}
			}
			s.Severity[f[1]] = f[2:]
		case "presence":
			s.Presence = f[1]
		case "weight":
			sw := SpecWeight{Name: f[1], Metric: f[2], W: map[string]string{}}
			for i := 3; i+1 < len(f); i += 2 {
				sw.W[f[i]] = f[i+1]
			}
			s.Weights = append(s.Weights, sw)
		case "modifies":
			s.Modifies = append(s.Modifies, [2]string{f[1], f[2]})
		case "metric":
			s.Metrics = append(s.Metrics, SpecMetric{Name: f[1], Mandatory: f[2] == "mandatory", Values: f[3:]})
		default:
			return nil, fmt.Errorf("spec v%s: bad line %q", ver, ln)
		}
	}
	return s, nil
}

func smtStrLit(s string) string {
	arr := "((as const (Array Int (_ BitVec 8))) #x00)"
	for i := 0; i < len(s); i++ {
		arr = fmt.Sprintf("(store %s %d #x%02x)", arr, i, s[i])
	}
	return fmt.Sprintf("(mk-str %s 0 %d)", arr, len(s))
}

func smtIsLit(v, lit string) string {
	cs := []string{fmt.Sprintf("(= (s.len %s) %d)", v, len(lit))}
	for i := 0; i < len(lit); i++ {
		cs = append(cs, fmt.Sprintf("(= (select (s.arr %s) (+ (s.off %s) %d)) #x%02x)", v, v, i, lit[i]))
	}
	return "(and " + strings.Join(cs, " ") + ")"
}

// extraction of a field from bytes u0..uN of struct value c
func smtField(typ string, f ReprField, c string) string {
	// total width
	w := 0
	for _, p := range f.Pieces {
		w += p.Hi - p.Lo + 1
	}
	var parts []string
	for _, p := range f.Pieces {
		parts = append(parts, fmt.Sprintf("((_ extract %d %d) (%s.u%d %s))", p.Hi, p.Lo, typ, p.Byte, c))
	}
	body := parts[0]
	if len(parts) > 1 {
		body = "(concat " + strings.Join(parts, " ") + ")"
	}
	if w < 8 {
		body = fmt.Sprintf("((_ zero_extend %d) %s)", 8-w, body)
	}
	return body
}

// PreludeFor builds the SMT prelude for a package.
func (w *World) PreludeFor(pkg string) (string, []*Oblig, error) {
	if p, ok := w.preludes[pkg]; ok {
		return p, w.preludeObl[pkg], nil
	}
	common, err := os.ReadFile(filepath.Join(specDir, "common.smt2"))
	if err != nil {
		return "", nil, err
	}
	var sb strings.Builder
	sb.Write(common)
	var obl []*Oblig
	spec, err := loadSpec(pkg)
	if err != nil {
		return "", nil, err
	}
	w.Specs[pkg] = spec
	pc := w.Contr[pkg]
	// struct sorts of the package (value type and kvm)
	scope := w.PPkgs[pkg].Types.Scope()
	var errTypes []string
	for _, n := range scope.Names() {
		tn, ok := scope.Lookup(n).(*types.TypeName)
		if !ok {
			continue
		}
		if st, ok := tn.Type().Underlying().(*types.Struct); ok {
			allScalar := true
			for i := 0; i < st.NumFields(); i++ {
				if sortOfType(st.Field(i).Type()) == "" {
					allScalar = false
				}
			}
			if strings.HasPrefix(n, "Err") {
				errTypes = append(errTypes, n)
			} else if allScalar && st.NumFields() > 0 {
				ensureStructSort(n, st)
			}
		}
	}
	sort.Strings(errTypes)
	var body strings.Builder
	for _, n := range errTypes {
		id := errTypeID(pkg, n)
		fmt.Fprintf(&body, "(define-fun T_%s () Int %d)\n", n, id)
		fmt.Fprintf(&body, "(define-fun is-%s ((e Err)) Bool (and ((_ is PErr) e) (= (ptype e) %d)))\n", n, id)
		preludeSorts["T_"+n] = SInt
		preludeSorts["is-"+n] = SBool
	}
	// metric tables
	V := spec.Version
	T := spec.Type
	for i, m := range spec.Metrics {
		fmt.Fprintf(&body, "(define-fun M_%s () Int %d)\n", m.Name, i)
		preludeSorts["M_"+m.Name] = SInt
	}
	n := len(spec.Metrics)
	fmt.Fprintf(&body, "(define-fun NM%s () Int %d)\n", V, n)
	// midx
	{
		e := "(- 1)"
		for i := n - 1; i >= 0; i-- {
			e = fmt.Sprintf("(ite %s %d %s)", smtIsLit("s", spec.Metrics[i].Name), i, e)
		}
		fmt.Fprintf(&body, "(define-fun midx%s ((s Str)) Int %s)\n", V, e)
		preludeSorts["midx"+V] = SInt
	}
	// header, metric names, first missing mandatory metric
	fmt.Fprintf(&body, "(define-fun HDRLEN%s () Int %d)\n", V, len(spec.Header))
	{
		cs := []string{fmt.Sprintf("(>= (s.len v) %d)", len(spec.Header))}
		for i := 0; i < len(spec.Header); i++ {
			cs = append(cs, fmt.Sprintf("(= (select (s.arr v) (+ (s.off v) %d)) #x%02x)", i, spec.Header[i]))
		}
		fmt.Fprintf(&body, "(define-fun hasHeader%s ((v Str)) Bool (and %s))\n", V, strings.Join(cs, " "))
		preludeSorts["hasHeader"+V] = SBool
		e := smtStrLit("")
		for i := n - 1; i >= 0; i-- {
			e = fmt.Sprintf("(ite (= m %d) %s %s)", i, smtStrLit(spec.Metrics[i].Name), e)
		}
		fmt.Fprintf(&body, "(define-fun vname%s ((m Int)) Str %s)\n", V, e)
		preludeSorts["vname"+V] = SStr
		fm := "(- 1)"
		for i := n - 1; i >= 0; i-- {
			if spec.Metrics[i].Mandatory {
				fm = fmt.Sprintf("(ite (not (select seen %d)) %d %s)", i, i, fm)
			}
		}
		fmt.Fprintf(&body, "(define-fun firstMissing%s ((seen (Array Int Bool))) Int %s)\n", V, fm)
		preludeSorts["firstMissing"+V] = SInt
	}
	// group offsets in the flat metric order and number of mandatory metrics
	{
		off := 0
		e := fmt.Sprintf("%d", n)
		var offs []int
		for _, g := range spec.GOrder {
			offs = append(offs, off)
			off += len(spec.Groups[g])
		}
		for gi := len(offs) - 1; gi >= 0; gi-- {
			e = fmt.Sprintf("(ite (= g %d) %d %s)", gi, offs[gi], e)
		}
		fmt.Fprintf(&body, "(define-fun goff%s ((g Int)) Int %s)\n", V, e)
		sz := "0"
		for gi := len(spec.GOrder) - 1; gi >= 0; gi-- {
			sz = fmt.Sprintf("(ite (= g %d) %d %s)", gi, len(spec.Groups[spec.GOrder[gi]]), sz)
		}
		fmt.Fprintf(&body, "(define-fun gsize%s ((g Int)) Int %s)\n", V, sz)
		fmt.Fprintf(&body, "(define-fun NGROUPS%s () Int %d)\n", V, len(spec.GOrder))
		nm := 0
		for _, m := range spec.Metrics {
			if m.Mandatory {
				nm++
			}
		}
		fmt.Fprintf(&body, "(define-fun NMAND%s () Int %d)\n", V, nm)
		preludeSorts["goff"+V], preludeSorts["gsize"+V], preludeSorts["NGROUPS"+V], preludeSorts["NMAND"+V] = SInt, SInt, SInt, SInt
	}
	// mandatory
	{
		var cs []string
		for i, m := range spec.Metrics {
			if m.Mandatory {
				cs = append(cs, fmt.Sprintf("(= m %d)", i))
			}
		}
		fmt.Fprintf(&body, "(define-fun mandatory%s ((m Int)) Bool (or %s))\n", V, strings.Join(cs, " "))
		preludeSorts["mandatory"+V] = SBool
	}
	if pc != nil && pc.Repr != nil {
		rp := pc.Repr
		if rp.Type != T {
			return "", nil, fmt.Errorf("repr type %s does not match spec type %s", rp.Type, T)
		}
		byMetric := map[string]ReprField{}
		for _, f := range rp.Fields {
			byMetric[f.Metric] = f
		}
		// consistency obligations (decided in Go: finite tables)
		used := map[[2]int]string{}
		for _, f := range rp.Fields {
			for _, p := range f.Pieces {
				for b := p.Lo; b <= p.Hi; b++ {
					k := [2]int{p.Byte, b}
					ok := True
					if prev, dup := used[k]; dup {
						ok = False
						_ = prev
					}
					used[k] = f.Metric
					if ok.IsFalse() {
						obl = append(obl, &Oblig{Name: fmt.Sprintf("gocvss%s/repr/layout_no_overlap/%s", pkg, f.Metric), Kind: "repr", Cond: False})
					}
				}
			}
		}
		for _, p := range rp.Unused {
			for b := p.Lo; b <= p.Hi; b++ {
				used[[2]int{p.Byte, b}] = "unused"
			}
		}
		full := True
		for by := 0; by < rp.NBytes; by++ {
			for b := 0; b < 8; b++ {
				if _, ok := used[[2]int{by, b}]; !ok {
					full = False
				}
			}
		}
		obl = append(obl, &Oblig{Name: fmt.Sprintf("gocvss%s/repr/layout_covers_all_bits", pkg), Kind: "repr", Cond: full})
		for i, m := range spec.Metrics {
			f, ok := byMetric[m.Name]
			okT := BoolLit(ok)
			if ok {
				a := append([]string(nil), f.Codes...)
				b := append([]string(nil), m.Values...)
				sort.Strings(a)
				sort.Strings(b)
				if strings.Join(a, ",") != strings.Join(b, ",") {
					okT = False
				}
				if !m.Mandatory && f.Codes[0] != m.Values[0] {
					okT = False
				}
			}
			obl = append(obl, &Oblig{Name: fmt.Sprintf("gocvss%s/repr/codes_match_spec_values/%s", pkg, m.Name), Kind: "repr", Cond: okT})
			if !ok {
				continue
			}
			fmt.Fprintf(&body, "(define-fun f%s_%s ((c %s)) BV8 %s)\n", V, m.Name, T, smtField(T, f, "c"))
			preludeSorts[fmt.Sprintf("f%s_%s", V, m.Name)] = SBV8
			_ = i
		}
		// field(c,m)
		{
			e := "#xff"
			for i := n - 1; i >= 0; i-- {
				e = fmt.Sprintf("(ite (= m %d) (f%s_%s c) %s)", i, V, spec.Metrics[i].Name, e)
			}
			fmt.Fprintf(&body, "(define-fun field%s ((c %s) (m Int)) BV8 %s)\n", V, T, e)
			preludeSorts["field"+V] = SBV8
		}
		// ncodes(m), vcode(m,s), vstr(m,code)
		{
			e := "0"
			for i := n - 1; i >= 0; i-- {
				e = fmt.Sprintf("(ite (= m %d) %d %s)", i, len(byMetric[spec.Metrics[i].Name].Codes), e)
			}
			fmt.Fprintf(&body, "(define-fun ncodes%s ((m Int)) Int %s)\n", V, e)
			preludeSorts["ncodes"+V] = SInt
		}
		{
			e := "#xff"
			for i := n - 1; i >= 0; i-- {
				ce := "#xff"
				codes := byMetric[spec.Metrics[i].Name].Codes
				for k := len(codes) - 1; k >= 0; k-- {
					ce = fmt.Sprintf("(ite %s #x%02x %s)", smtIsLit("s", codes[k]), k, ce)
				}
				e = fmt.Sprintf("(ite (= m %d) %s %s)", i, ce, e)
			}
			fmt.Fprintf(&body, "(define-fun vcode%s ((m Int) (s Str)) BV8 %s)\n", V, e)
			preludeSorts["vcode"+V] = SBV8
		}
		{
			e := smtStrLit("")
			for i := n - 1; i >= 0; i-- {
				ce := smtStrLit("")
				codes := byMetric[spec.Metrics[i].Name].Codes
				for k := len(codes) - 1; k >= 0; k-- {
					ce = fmt.Sprintf("(ite (= code #x%02x) %s %s)", k, smtStrLit(codes[k]), ce)
				}
				e = fmt.Sprintf("(ite (= m %d) %s %s)", i, ce, e)
			}
			fmt.Fprintf(&body, "(define-fun vstr%s ((m Int) (code BV8)) Str %s)\n", V, e)
			preludeSorts["vstr"+V] = SStr
		}
		// wf
		{
			var cs []string
			for _, m := range spec.Metrics {
				cs = append(cs, fmt.Sprintf("(bvult (f%s_%s c) #x%02x)", V, m.Name, len(byMetric[m.Name].Codes)))
			}
			for _, p := range rp.Unused {
				cs = append(cs, fmt.Sprintf("(= ((_ extract %d %d) (%s.u%d c)) #b%s)", p.Hi, p.Lo, T, p.Byte, strings.Repeat("0", p.Hi-p.Lo+1)))
			}
			fmt.Fprintf(&body, "(define-fun wf%s ((c %s)) Bool (and %s))\n", V, T, strings.Join(cs, " "))
			preludeSorts["wf"+V] = SBool
		}
		// value predicates, weights, effective values
		for _, m := range spec.Metrics {
			for k, val := range byMetric[m.Name].Codes {
				fmt.Fprintf(&body, "(define-fun isv%s_%s_%s ((code BV8)) Bool (= code #x%02x))\n", V, m.Name, val, k)
				preludeSorts[fmt.Sprintf("isv%s_%s_%s", V, m.Name, val)] = SBool
			}
		}
		realLit := func(x string) string {
			if !strings.Contains(x, ".") {
				x += ".0"
			}
			if strings.HasPrefix(x, "-") {
				return "(- " + x[1:] + ")"
			}
			return x
		}
		for _, sw := range spec.Weights {
			codes := byMetric[sw.Metric].Codes
			e := "0.0"
			okT := True
			for k := len(codes) - 1; k >= 0; k-- {
				wv, ok := sw.W[codes[k]]
				if !ok {
					okT = False
					wv = "0"
				}
				e = fmt.Sprintf("(ite (= code #x%02x) %s %s)", k, realLit(wv), e)
			}
			obl = append(obl, &Oblig{Name: fmt.Sprintf("gocvss%s/repr/weight_table_covers_codes/%s", pkg, sw.Name), Kind: "repr", Cond: okT})
			fmt.Fprintf(&body, "(define-fun w%s_%s ((code BV8)) Real %s)\n", V, sw.Name, e)
			preludeSorts[fmt.Sprintf("w%s_%s", V, sw.Name)] = SReal
			// normal form of a code: the first code with the same weight (identifies X with its default)
			ne := "code"
			for k := len(codes) - 1; k >= 0; k-- {
				rep := k
				for j := 0; j < k; j++ {
					if sw.W[codes[j]] == sw.W[codes[k]] || (sw.W[codes[j]] + ".0") == sw.W[codes[k]] || sw.W[codes[j]] == (sw.W[codes[k]] + ".0") || normNum(sw.W[codes[j]]) == normNum(sw.W[codes[k]]) {
						rep = j
						break
					}
				}
				if rep != k {
					ne = fmt.Sprintf("(ite (= code #x%02x) #x%02x %s)", k, rep, ne)
				}
			}
			fmt.Fprintf(&body, "(define-fun norm%s_%s ((code BV8)) BV8 %s)\n", V, sw.Name, ne)
			preludeSorts[fmt.Sprintf("norm%s_%s", V, sw.Name)] = SBV8
		}
		for _, md := range spec.Modifies {
			mc, bc := byMetric[md[0]].Codes, byMetric[md[1]].Codes
			okT := BoolLit(len(mc) >= 1 && strings.Join(mc[1:], ",") == strings.Join(bc, ",") || (len(mc) > len(bc)+1 && strings.Join(mc[1:len(bc)+1], ",") == strings.Join(bc, ",")))
			obl = append(obl, &Oblig{Name: fmt.Sprintf("gocvss%s/repr/modified_codes_align_with_base/%s", pkg, md[0]), Kind: "repr", Cond: okT})
			fmt.Fprintf(&body, "(define-fun eff%s_%s ((c %s)) BV8 (ite (= (f%s_%s c) #x00) (f%s_%s c) (bvsub (f%s_%s c) #x01)))\n", V, md[1], T, V, md[0], V, md[1], V, md[0])
			preludeSorts[fmt.Sprintf("eff%s_%s", V, md[1])] = SBV8
		}
		// fields as an array indexed by metric position
		{
			e := "((as const (Array Int (_ BitVec 8))) #x00)"
			for i, m := range spec.Metrics {
				e = fmt.Sprintf("(store %s %d (f%s_%s c))", e, i, V, m.Name)
			}
			fmt.Fprintf(&body, "(define-fun valsarr%s ((c %s)) (Array Int (_ BitVec 8)) %s)\n", V, T, e)
			preludeSorts["valsarr"+V] = SArrB
		}
		// canonical form: segment k = [sep] name ":" value, written iff present
		{
			grpOf := map[string]string{}
			for g, ms := range spec.Groups {
				for _, m := range ms {
					grpOf[m] = g
				}
			}
			pos := fmt.Sprintf("%d", len(spec.Header))
			fmt.Fprintf(&body, "(define-fun segpos%s_0 ((c %s)) Int %s)\n", V, T, pos)
			var canon []string
			canon = append(canon, fmt.Sprintf("(= (s.len s) (canonLen%s c))", V))
			for i := 0; i < len(spec.Header); i++ {
				canon = append(canon, fmt.Sprintf("(= (select (s.arr s) (+ (s.off s) %d)) #x%02x)", i, spec.Header[i]))
			}
			var lenDefs strings.Builder
			for k, m := range spec.Metrics {
				// presence
				pres := "true"
				if !m.Mandatory {
					if spec.Presence == "group" {
						var cs []string
						for _, gm := range spec.Groups[grpOf[m.Name]] {
							cs = append(cs, fmt.Sprintf("(not (= (f%s_%s c) #x00))", V, gm))
						}
						pres = "(or " + strings.Join(cs, " ") + ")"
					} else {
						pres = fmt.Sprintf("(not (= (f%s_%s c) #x00))", V, m.Name)
					}
				}
				fmt.Fprintf(&body, "(define-fun present%s_%d ((c %s)) Bool %s)\n", V, k, T, pres)
				sep := "/"
				if k == 0 && (spec.Header == "" || strings.HasSuffix(spec.Header, "/")) {
					sep = ""
				}
				prefix := sep + m.Name + ":"
				codes := byMetric[m.Name].Codes
				vl := "0"
				for ci := len(codes) - 1; ci >= 0; ci-- {
					vl = fmt.Sprintf("(ite (= (f%s_%s c) #x%02x) %d %s)", V, m.Name, ci, len(codes[ci]), vl)
				}
				fmt.Fprintf(&body, "(define-fun seglen%s_%d ((c %s)) Int (ite (present%s_%d c) (+ %d %s) 0))\n", V, k, T, V, k, len(prefix), vl)
				fmt.Fprintf(&body, "(define-fun segpos%s_%d ((c %s)) Int (+ (segpos%s_%d c) (seglen%s_%d c)))\n", V, k+1, T, V, k, V, k)
				// bytes of the segment when it starts at position p
				var bs []string
				for j := 0; j < len(prefix); j++ {
					bs = append(bs, fmt.Sprintf("(= (select (s.arr s) (+ (s.off s) (+ p %d))) #x%02x)", j, prefix[j]))
				}
				for ci, val := range codes {
					var vb []string
					for j := 0; j < len(val); j++ {
						vb = append(vb, fmt.Sprintf("(= (select (s.arr s) (+ (s.off s) (+ p %d))) #x%02x)", len(prefix)+j, val[j]))
					}
					bs = append(bs, fmt.Sprintf("(=> (= (f%s_%s c) #x%02x) (and %s))", V, m.Name, ci, strings.Join(vb, " ")))
				}
				fmt.Fprintf(&lenDefs, "(define-fun segokAt%s_%d ((s Str) (c %s) (p Int)) Bool (=> (present%s_%d c) (and %s)))\n", V, k, T, V, k, strings.Join(bs, " "))
				fmt.Fprintf(&lenDefs, "(define-fun segok%s_%d ((s Str) (c %s)) Bool (segokAt%s_%d s c (segpos%s_%d c)))\n", V, k, T, V, k, V, k)
				canon = append(canon, fmt.Sprintf("(segok%s_%d s c)", V, k))
				preludeSorts[fmt.Sprintf("segok%s_%d", V, k)] = SBool
				preludeSorts[fmt.Sprintf("segpos%s_%d", V, k)] = SInt
				preludeSorts[fmt.Sprintf("seglen%s_%d", V, k)] = SInt
				preludeSorts[fmt.Sprintf("present%s_%d", V, k)] = SBool
			}
			preludeSorts[fmt.Sprintf("segpos%s_%d", V, n)] = SInt
			fmt.Fprintf(&body, "(define-fun canonLen%s ((c %s)) Int (segpos%s_%d c))\n", V, T, V, n)
			preludeSorts["canonLen"+V] = SInt
			body.WriteString(lenDefs.String())
			fmt.Fprintf(&body, "(define-fun isCanon%s ((s Str) (c %s)) Bool (and %s))\n", V, T, strings.Join(canon, " "))
			preludeSorts["isCanon"+V] = SBool
			// prefix property after the first k+1 segments have been written into a buffer of length segpos_{k+1}
			for k := range spec.Metrics {
				var cs []string
				cs = append(cs, fmt.Sprintf("(= (s.len s) (segpos%s_%d c))", V, k+1))
				for i := 0; i < len(spec.Header); i++ {
					cs = append(cs, fmt.Sprintf("(= (select (s.arr s) (+ (s.off s) %d)) #x%02x)", i, spec.Header[i]))
				}
				for j := 0; j <= k; j++ {
					cs = append(cs, fmt.Sprintf("(segok%s_%d s c)", V, j))
				}
				fmt.Fprintf(&body, "(define-fun canonPrefix%s_%d ((s Str) (c %s)) Bool (and %s))\n", V, k, T, strings.Join(cs, " "))
				preludeSorts[fmt.Sprintf("canonPrefix%s_%d", V, k)] = SBool
			}
		}
		// view equality
		{
			var cs []string
			for _, m := range spec.Metrics {
				cs = append(cs, fmt.Sprintf("(= (f%s_%s a) (f%s_%s b))", V, m.Name, V, m.Name))
			}
			fmt.Fprintf(&body, "(define-fun sameview%s ((a %s) (b %s)) Bool (and %s))\n", V, T, T, strings.Join(cs, " "))
			preludeSorts["sameview"+V] = SBool
		}
	}
	// sentinel error variables of the package (values from init)
	if gs := w.globalState(pkg); gs != nil {
		var names []string
		for g, a := range gs.globals {
			if sortOfType(g.Type().(*types.Pointer).Elem()) == SErr {
				if t, ok := gs.st.mem[a].(*Term); ok && t.Op == "Sentinel" {
					names = append(names, fmt.Sprintf("(define-fun %s () Err (Sentinel %s))\n", g.Name(), t.Args[0].IV.String()))
					preludeSorts[g.Name()] = SErr
				}
			}
		}
		sort.Strings(names)
		for _, s := range names {
			body.WriteString(s)
		}
	}
	sb.WriteString(structSortDecls())
	sb.WriteString(body.String())
	// hand-written version-specific vocabulary
	if extra, err := os.ReadFile(filepath.Join(specDir, "v"+pkg+".smt2")); err == nil {
		sb.Write(extra)
	}
	if more, _ := filepath.Glob(filepath.Join(specDir, "v"+pkg+"_*.smt2")); len(more) > 0 {
		sort.Strings(more)
		for _, f := range more {
			if extra, err := os.ReadFile(f); err == nil {
				sb.Write(extra)
			}
		}
	}
	// package-local vocabulary from the contract file
	if pc != nil {
		for _, s := range pc.Smt {
			sb.WriteString(s)
			sb.WriteString("\n")
		}
	}
	text := sb.String()
	recordPreludeSorts(text)
	w.preludes[pkg] = text
	w.preludeObl[pkg] = obl
	return text, obl, nil
}

// recordPreludeSorts scans define-fun / declare-fun headers for result sorts.
func recordPreludeSorts(text string) {
	sxs, err := parseSXAll(text)
	if err != nil {
		panic(fmt.Sprintf("prelude does not parse: %v", err))
	}
	for _, s := range sxs {
		h := s.Head()
		if (h == "define-fun" || h == "declare-fun" || h == "define-fun-rec") && len(s.List) >= 4 {
			name := s.List[1].Atom
			preludeSorts[name] = normSort(s.List[3].String())
		}
		if h == "declare-const" && len(s.List) == 3 {
			preludeSorts[s.List[1].Atom] = normSort(s.List[2].String())
		}
	}
}

func normSort(s string) string {
	switch s {
	case "(_ BitVec 8)":
		return SBV8
	case "(_ FloatingPoint 11 53)":
		return SF64
	case "(Array Int (_ BitVec 8))":
		return SArrB
	}
	return s
}

func normNum(x string) string {
	if strings.Contains(x, ".") {
		x = strings.TrimRight(x, "0")
		x = strings.TrimSuffix(x, ".")
	}
	return x
}
