package main

// Cross-check of the ghost allocation counter's cost model against the compiler's escape analysis
// (go build -gcflags=-m on the scratch copy): an SSA allocation site counts iff the compiler reports a
// heap allocation on that source line.

import (
	"bytes"
	"fmt"
	"os/exec"
	"regexp"
	"strings"

	"golang.org/x/tools/go/ssa"
)

var escRe = regexp.MustCompile(`^([^:\s]+\.go):(\d+):(\d+): (.*(escapes to heap|moved to heap).*)$`)

func (w *World) heapLines(pkg string) map[string]string {
	if w.escapes == nil {
		w.escapes = map[string]map[string]string{}
	}
	if m, ok := w.escapes[pkg]; ok {
		return m
	}
	m := map[string]string{}
	cmd := exec.Command("go", "build", "-gcflags=-m", "./"+pkg+"/")
	cmd.Dir = w.RepoDir
	cmd.Env = goEnv()
	var ob bytes.Buffer
	cmd.Stdout = &ob
	cmd.Stderr = &ob
	cmd.Run()
	for _, ln := range strings.Split(ob.String(), "\n") {
		if mm := escRe.FindStringSubmatch(strings.TrimSpace(ln)); mm != nil {
			key := fmt.Sprintf("%s:%s", mm[1][strings.LastIndex(mm[1], "/")+1:], mm[2])
			m[key] += mm[4] + "; "
		}
	}
	w.escapes[pkg] = m
	return m
}

// allocFilterFor returns the predicate deciding which SSA allocation sites are heap allocations.
func (w *World) allocFilterFor(pkg string, sites map[string]string) func(ins ssa.Instruction, kind string) bool {
	hl := w.heapLines(pkg)
	return func(ins ssa.Instruction, kind string) bool {
		pos := w.Fset.Position(ins.Pos())
		fn := pos.Filename
		key := fmt.Sprintf("%s:%d", fn[strings.LastIndex(fn, "/")+1:], pos.Line)
		msg, heap := hl[key]
		if heap && kind == "new" {
			// a parameter spill only counts when the compiler moved that parameter to the heap
			if a, ok := ins.(*ssa.Alloc); ok && a.Comment != "complit" && a.Comment != "slicelit" && a.Comment != "new" && !strings.Contains(msg, "moved to heap: "+a.Comment) {
				heap = false
			}
		}
		if sites != nil {
			sites[fmt.Sprintf("%s %s@%s", kind, ins.String(), key)] = fmt.Sprintf("heap=%v %s", heap, msg)
		}
		return heap
	}
}
