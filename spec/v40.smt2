; CVSS v4.0 specification vocabulary (hand-written from the specification document).
; Nomenclature (section 1.3): T iff the threat metric E is defined, E iff any environmental metric is.
(define-fun threatDefined40 ((c CVSS40)) Bool (not (= (f40_E c) #x00)))
(define-fun envDefined40 ((c CVSS40)) Bool
  (or (not (= (f40_CR c) #x00)) (not (= (f40_IR c) #x00)) (not (= (f40_AR c) #x00))
      (not (= (f40_MAV c) #x00)) (not (= (f40_MAC c) #x00)) (not (= (f40_MAT c) #x00)) (not (= (f40_MPR c) #x00))
      (not (= (f40_MUI c) #x00)) (not (= (f40_MVC c) #x00)) (not (= (f40_MVI c) #x00)) (not (= (f40_MVA c) #x00))
      (not (= (f40_MSC c) #x00)) (not (= (f40_MSI c) #x00)) (not (= (f40_MSA c) #x00))))

; ---- ParseVector (C01, C06, C13, C18): reference fold over the elements of a v4.0 vector ----
; v is the text after the 8-byte header.  An element starts at a '/' at position s and extends to the
; next '/' at a position > s (or the end).  pos is the index (in the mandated metric order) of the next
; metric that may appear: base metrics must appear one after the other, later metrics may be skipped
; but never go back.  The first defect decides the error.
(declare-datatypes ((PRes40 0)) (((mk-pres40 (p.err Err) (p.pos Int) (p.vals (Array Int (_ BitVec 8)))))))
(define-fun noVals () (Array Int (_ BitVec 8)) ((as const (Array Int (_ BitVec 8))) #x00))
; fold40 is a recursive definition with measure (s.len v) - s (nextsep v (s+1) > s); see fold40_def.
(declare-fun fold40 (Str Int Int (Array Int (_ BitVec 8))) PRes40)
(define-fun fold40_def ((v Str) (s Int) (pos Int) (vals (Array Int (_ BitVec 8)))) Bool
  (= (fold40 v s pos vals)
  (ite (or (< s 0) (>= s (s.len v))) (mk-pres40 Nil pos vals)
  (ite (not (= (select (s.arr v) (+ (s.off v) s)) #x2f)) (mk-pres40 ErrInvalidMetricValue pos vals)
  (let ((pt (substr v (+ s 1) (nextsep v (+ s 1)))))
  (let ((m (midx40 (elemkey pt))))
  (ite (or (and (< pos NMAND40) (not (= m pos))) (and (>= pos NMAND40) (< m pos))) (mk-pres40 ErrInvalidMetricOrder pos vals)
  (ite (= (vcode40 m (elemval pt)) #xff) (mk-pres40 ErrInvalidMetricValue pos vals)
  (fold40 v (nextsep v (+ s 1)) (+ m 1) (store vals m (vcode40 m (elemval pt))))))))))))
(define-fun parseRes40 ((vector Str)) PRes40
  (ite (not (hasHeader40 vector)) (mk-pres40 ErrInvalidCVSSHeader 0 noVals)
  (let ((r (fold40 (substr vector HDRLEN40 (s.len vector)) 0 0 noVals)))
  (ite (not (= (p.err r) Nil)) r
  (ite (< (p.pos r) NMAND40) (mk-pres40 ErrTooShortVector (p.pos r) (p.vals r))
  r)))))
