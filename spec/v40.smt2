; CVSS v4.0 specification vocabulary (hand-written from the specification document).
; Nomenclature (section 1.3): T iff the threat metric E is defined, E iff any environmental metric is.
(define-fun threatDefined40 ((c CVSS40)) Bool (not (= (f40_E c) #x00)))
(define-fun envDefined40 ((c CVSS40)) Bool
  (or (not (= (f40_CR c) #x00)) (not (= (f40_IR c) #x00)) (not (= (f40_AR c) #x00))
      (not (= (f40_MAV c) #x00)) (not (= (f40_MAC c) #x00)) (not (= (f40_MAT c) #x00)) (not (= (f40_MPR c) #x00))
      (not (= (f40_MUI c) #x00)) (not (= (f40_MVC c) #x00)) (not (= (f40_MVI c) #x00)) (not (= (f40_MVA c) #x00))
      (not (= (f40_MSC c) #x00)) (not (= (f40_MSI c) #x00)) (not (= (f40_MSA c) #x00))))
