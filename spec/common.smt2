; Common specification vocabulary (independent of the code under verification).
; Sort aliases
(define-sort BV8 () (_ BitVec 8))
(define-sort F64 () (_ FloatingPoint 11 53))
(define-sort ArrB () (Array Int (_ BitVec 8)))
; A Go string is a window (off,len) into a byte array.
(declare-datatypes ((Str 0)) (((mk-str (str.arr (Array Int (_ BitVec 8))) (str.off Int) (str.len Int)))))
; Go error values: nil, a sentinel variable (identified by number), or a pointer to an error struct
; with a single string field (type number, field contents).
(declare-datatypes ((Err 0)) (((Nil) (Sentinel (sid Int)) (PErr (ptype Int) (pabv Str)))))
(define-sort ArrS () (Array Int Str))
(define-sort ArrI () (Array Int Int))
(define-sort ArrO () (Array Int Bool))

; Go string equality: same length, same bytes.
(define-fun streq ((a Str) (b Str)) Bool
  (and (= (str.len a) (str.len b))
       (forall ((i Int)) (! (=> (and (<= 0 i) (< i (str.len a)))
                                (= (select (str.arr a) (+ (str.off a) i)) (select (str.arr b) (+ (str.off b) i))))
                            :pattern ((select (str.arr a) (+ (str.off a) i)))))))

; math.Min / math.Max with Go's special cases (NaN, signed zeros).
(define-fun gomin ((x F64) (y F64)) F64
  (ite (or (fp.isNaN x) (fp.isNaN y)) (_ NaN 11 53)
  (ite (and (fp.isZero x) (fp.isZero y)) (ite (or (fp.isNegative x) (fp.isNegative y)) (_ -zero 11 53) (_ +zero 11 53))
  (ite (fp.lt x y) x y))))
(define-fun gomax ((x F64) (y F64)) F64
  (ite (or (fp.isNaN x) (fp.isNaN y)) (_ NaN 11 53)
  (ite (and (fp.isZero x) (fp.isZero y)) (ite (and (fp.isNegative x) (fp.isNegative y)) (_ -zero 11 53) (_ +zero 11 53))
  (ite (fp.gt x y) x y))))

; the float64 nearest to k/10
(define-fun tenth ((k Int)) F64 ((_ to_fp 11 53) RNE (/ (to_real k) 10.0)))
(define-fun f64 ((r Real)) F64 ((_ to_fp 11 53) RNE r))
; r is (IEEE-equal to) one of the one-decimal floats lo/10 .. hi/10
(define-fun isTenthOf ((r F64) (k Int)) Bool (fp.eq r (tenth k)))

; real-number helpers
(define-fun rmin ((a Real) (b Real)) Real (ite (<= a b) a b))
(define-fun rabs ((a Real)) Real (ite (< a 0.0) (- a) a))
(define-fun ceilr ((x Real)) Int (ite (= (to_real (to_int x)) x) (to_int x) (+ (to_int x) 1)))
; smallest number with one decimal >= x, times 10  (CVSS v3.0 Roundup over the reals)
(define-fun roundup10 ((x Real)) Int (ceilr (* x 10.0)))
; CVSS v3.1 Appendix A Roundup over the reals, times 10
(define-fun rne_int ((x Real)) Int
  (let ((f (to_int x))) (let ((d (- x (to_real f))))
    (ite (< d 0.5) f (ite (> d 0.5) (+ f 1) (ite (= (mod f 2) 0) f (+ f 1)))))))
(define-fun roundup31 ((x Real)) Int
  (let ((i (rne_int (* x 100000.0))))
    (ite (= (mod i 10000) 0) (div i 10000) (+ (div i 10000) 1))))
; round half up to one decimal, times 10 (CVSS v4.0) ; for x >= 0
(define-fun roundhalfup10 ((x Real)) Int (to_int (+ (* x 10.0) 0.5)))
(define-fun pow2 ((x Real)) Real (* x x))
(define-fun pow13r ((x Real)) Real (let ((x2 (* x x))) (let ((x4 (* x2 x2))) (let ((x8 (* x4 x4))) (* x8 (* x4 x))))))
(define-fun pow15r ((x Real)) Real (let ((x2 (* x x))) (let ((x4 (* x2 x2))) (let ((x8 (* x4 x4))) (* x8 (* x4 (* x2 x)))))))
