; Common specification vocabulary (independent of the code under verification).
; Sort aliases
(define-sort BV8 () (_ BitVec 8))
(define-sort F64 () (_ FloatingPoint 11 53))
(define-sort ArrB () (Array Int (_ BitVec 8)))
; A Go string is a window (off,len) into a byte array.
(declare-datatypes ((Str 0)) (((mk-str (s.arr (Array Int (_ BitVec 8))) (s.off Int) (s.len Int)))))
; Go error values: nil, a sentinel variable (identified by number), or a pointer to an error struct
; with a single string field (type number, field contents).
(declare-datatypes ((Err 0)) (((Nil) (Sentinel (sid Int)) (PErr (ptype Int) (pabv Str)))))
(define-sort ArrS () (Array Int Str))
(define-sort ArrI () (Array Int Int))
(define-sort ArrO () (Array Int Bool))

; Go string equality between two non-literal strings.  Comparisons against literals are expanded
; by govc into length and byte tests; for two symbolic strings only the fact that Go's == is being
; applied matters to the verified code (validate's loop), so the predicate is left uninterpreted
; (anything proved holds for the real equality as well).
(declare-fun streq (Str Str) Bool)

; math.Min / math.Max with Go's special cases (NaN, signed zeros).
(define-fun gomin ((x F64) (y F64)) F64
  (ite (or (fp.isNaN x) (fp.isNaN y)) (_ NaN 11 53)
  (ite (and (fp.isZero x) (fp.isZero y)) (ite (or (fp.isNegative x) (fp.isNegative y)) (_ -zero 11 53) (_ +zero 11 53))
  (ite (fp.lt x y) x y))))
(define-fun gomax ((x F64) (y F64)) F64
  (ite (or (fp.isNaN x) (fp.isNaN y)) (_ NaN 11 53)
  (ite (and (fp.isZero x) (fp.isZero y)) (ite (and (fp.isNegative x) (fp.isNegative y)) (_ -zero 11 53) (_ +zero 11 53))
  (ite (fp.gt x y) x y))))

; the float64 nearest to k/10
(define-fun tenth ((k Int)) F64 ((_ to_fp 11 53) RNE (/ (to_real k) 10.0)))
(define-fun f64 ((r Real)) F64 ((_ to_fp 11 53) RNE r))
; r is (IEEE-equal to) one of the one-decimal floats lo/10 .. hi/10
(define-fun isTenthOf ((r F64) (k Int)) Bool (fp.eq r (tenth k)))

; the integer number of tenths denoted by a float (nearest integer to 10*r)
(define-fun kof ((r F64)) Int (to_int (+ (* (fp.to_real r) 10.0) 0.5)))
; r is a finite float64 that is IEEE-equal to the float nearest to k/10 for an integer lo <= k <= hi
(define-fun isTenthIn ((r F64) (lo Int) (hi Int)) Bool
  (and (not (fp.isNaN r)) (not (fp.isInfinite r)) (fp.eq r (tenth (kof r))) (<= lo (kof r)) (<= (kof r) hi)))
; real-number helpers
(define-fun rmin ((a Real) (b Real)) Real (ite (<= a b) a b))
(define-fun rabs ((a Real)) Real (ite (< a 0.0) (- a) a))
(define-fun ceilr ((x Real)) Int (ite (= (to_real (to_int x)) x) (to_int x) (+ (to_int x) 1)))
; smallest number with one decimal >= x, times 10  (CVSS v3.0 Roundup over the reals)
(define-fun roundup10 ((x Real)) Int (ceilr (* x 10.0)))
; CVSS v3.1 Appendix A Roundup over the reals, times 10
(define-fun rne_int ((x Real)) Int
  (let ((f (to_int x))) (let ((d (- x (to_real f))))
    (ite (< d 0.5) f (ite (> d 0.5) (+ f 1) (ite (= (mod f 2) 0) f (+ f 1)))))))
(define-fun roundup31 ((x Real)) Int
  (let ((i (rne_int (* x 100000.0))))
    (ite (= (mod i 10000) 0) (div i 10000) (+ (div i 10000) 1))))
; round half up to one decimal, times 10 (CVSS v4.0) ; for x >= 0
(define-fun roundhalfup10 ((x Real)) Int (to_int (+ (* x 10.0) 0.5)))
(define-fun pow2 ((x Real)) Real (* x x))
(define-fun pow13r ((x Real)) Real (let ((x2 (* x x))) (let ((x4 (* x2 x2))) (let ((x8 (* x4 x4))) (* x8 (* x4 x))))))
(define-fun pow15r ((x Real)) Real (let ((x2 (* x x))) (let ((x4 (* x2 x2))) (let ((x8 (* x4 x4))) (* x8 (* x4 (* x2 x)))))))

; Qualitative severity rating scale (specification section 5 / 6): class of a float64 score by its
; REAL value: -1 out of [0,10]; 0 NONE [0,0.1); 1 LOW [0.1,4); 2 MEDIUM [4,7); 3 HIGH [7,9); 4 CRITICAL [9,10].
; For a finite float x and a real r:  real(x) < r  <=>  x < (least float >= r).
(define-fun fup ((r Real)) F64 ((_ to_fp 11 53) RTP r))
(define-fun fdown ((r Real)) F64 ((_ to_fp 11 53) RTN r))
(define-fun ratingClass ((x F64)) Int
  (ite (or (fp.lt x (fup 0.0)) (fp.gt x (fdown 10.0))) (- 1)
  (ite (fp.lt x (fup 0.1)) 0
  (ite (fp.lt x (fup 4.0)) 1
  (ite (fp.lt x (fup 7.0)) 2
  (ite (fp.lt x (fup 9.0)) 3 4))))))

; ---- strings: first occurrence of a byte ----
; firstbyte s b = index of the first byte equal to b in s, or (s.len s) if there is none.
(declare-fun firstbyte (Str BV8) Int)
;;AXIOMS firstbyte nextsep elemkey elemval fold parse
(assert (forall ((s Str) (b BV8))
  (! (=> (<= 0 (s.len s))
         (and (<= 0 (firstbyte s b)) (<= (firstbyte s b) (s.len s))
              (=> (< (firstbyte s b) (s.len s)) (= (select (s.arr s) (+ (s.off s) (firstbyte s b))) b))))
     :pattern ((firstbyte s b)))))
; stated over absolute array positions p so that the pattern contains no arithmetic
(assert (forall ((s Str) (b BV8) (p Int))
  (! (=> (and (<= (s.off s) p) (< p (+ (s.off s) (firstbyte s b)))) (not (= (select (s.arr s) p) b)))
     :pattern ((firstbyte s b) (select (s.arr s) p)))))
;;END
(define-fun substr ((s Str) (lo Int) (hi Int)) Str (mk-str (s.arr s) (+ (s.off s) lo) (- hi lo)))
(define-fun emptystr () Str (mk-str ((as const (Array Int (_ BitVec 8))) #x00) 0 0))
; element end: least j >= s with j = len or byte j = '/'
(define-fun nextsep ((v Str) (s Int)) Int (+ s (firstbyte (substr v s (s.len v)) #x2f)))
; key / value of an element "key:value" (no ':' => whole element is the key, value empty)
(define-fun elemkey ((el Str)) Str (substr el 0 (firstbyte el #x3a)))
(define-fun elemval ((el Str)) Str
  (ite (< (firstbyte el #x3a) (s.len el)) (substr el (+ (firstbyte el #x3a) 1) (s.len el)) emptystr))

; integer-valued float: the float64 of a (small) mathematical integer (exact)
(define-fun i2f ((n Int)) F64 ((_ to_fp 11 53) RNE (to_real n)))
