; CVSS v3.x equations (specification section 7.1-7.3) over the reals.  30 = 30 or 31.
; Codes are those of the representation; weights come from the spec tables via wNN_* (generated).
(define-fun isCh30 ((scode BV8)) Bool (isv30_S_C scode))
(define-fun iss30 ((c CVSS30)) Real
  (- 1.0 (* (- 1.0 (w30_CIA (f30_C c))) (* (- 1.0 (w30_CIA (f30_I c))) (- 1.0 (w30_CIA (f30_A c)))))))
(define-fun impact30 ((c CVSS30)) Real
  (ite (isCh30 (f30_S c))
       (- (* 7.52 (- (iss30 c) 0.029)) (* 3.25 (pow15r (- (iss30 c) 0.02))))
       (* 6.42 (iss30 c))))
(define-fun prw30 ((pr BV8) (s BV8)) Real (ite (isCh30 s) (w30_PRC pr) (w30_PRU pr)))
(define-fun expl30 ((c CVSS30)) Real
  (* 8.22 (* (w30_AV (f30_AV c)) (* (w30_AC (f30_AC c)) (* (prw30 (f30_PR c) (f30_S c)) (w30_UI (f30_UI c)))))))
(define-fun base30K ((c CVSS30)) Int
  (ite (<= (impact30 c) 0.0) 0
  (ite (isCh30 (f30_S c))
       (roundup10 (rmin (* 1.08 (+ (impact30 c) (expl30 c))) 10.0))
       (roundup10 (rmin (+ (impact30 c) (expl30 c)) 10.0)))))
(define-fun tw30 ((c CVSS30)) Real (* (w30_E (f30_E c)) (* (w30_RL (f30_RL c)) (w30_RC (f30_RC c)))))
(define-fun temporalFrom30 ((bk Int) (c CVSS30)) Int (roundup10 (* (/ (to_real bk) 10.0) (tw30 c))))
(define-fun temporal30K ((c CVSS30)) Int (temporalFrom30 (base30K c) c))
; environmental: effective (modified-or-base) values eff30_X are generated from the 'modifies' table
(define-fun miss30 ((c CVSS30)) Real
  (rmin (- 1.0 (* (- 1.0 (* (w30_CIAR (f30_CR c)) (w30_CIA (eff30_C c))))
               (* (- 1.0 (* (w30_CIAR (f30_IR c)) (w30_CIA (eff30_I c))))
                  (- 1.0 (* (w30_CIAR (f30_AR c)) (w30_CIA (eff30_A c))))))) 0.915))
(define-fun mimpact30 ((c CVSS30)) Real
  (ite (isCh30 (eff30_S c))
       (- (* 7.52 (- (miss30 c) 0.029)) (* 3.25 (pow15r (- (miss30 c) 0.02))))
       (* 6.42 (miss30 c))))
(define-fun mexpl30 ((c CVSS30)) Real
  (* 8.22 (* (w30_AV (eff30_AV c)) (* (w30_AC (eff30_AC c)) (* (prw30 (eff30_PR c) (eff30_S c)) (w30_UI (eff30_UI c)))))))
(define-fun envInner30K ((c CVSS30)) Int
  (ite (isCh30 (eff30_S c))
       (roundup10 (rmin (* 1.08 (+ (mimpact30 c) (mexpl30 c))) 10.0))
       (roundup10 (rmin (+ (mimpact30 c) (mexpl30 c)) 10.0))))
; the zero-impact flag and the outer stage as a function of (flag, inner value, temporal metrics):
; the flag and the inner value are the two cut points of the case split (DESIGN 3.3)
(define-fun envZero30 ((c CVSS30)) Bool (<= (mimpact30 c) 0.0))
(define-fun envFromZ30 ((z Bool) (ik Int) (c CVSS30)) Int
  (ite z 0 (roundup10 (* (/ (to_real ik) 10.0) (tw30 c)))))
(define-fun envFrom30 ((ik Int) (c CVSS30)) Int (envFromZ30 (envZero30 c) ik c))
(define-fun env30K ((c CVSS30)) Int (envFrom30 (envInner30K c) c))

; ---- ParseVector (C01, C06, C13, C18): reference fold over the '/'-separated elements ----
; State: which metrics were seen, and the code stored for each.  Elements are processed left to right;
; the first defect decides the error.  (seen, vals) are indexed by the metric's position in the spec.
(declare-datatypes ((PRes30 0)) (((mk-pres30 (p.err Err) (p.seen (Array Int Bool)) (p.vals (Array Int (_ BitVec 8)))))))
(define-fun noneSeen () (Array Int Bool) ((as const (Array Int Bool)) false))
(define-fun noVals () (Array Int (_ BitVec 8)) ((as const (Array Int (_ BitVec 8))) #x00))
; fold30 is a recursive definition (measure: (s.len v) + 1 - s, which decreases because nextsep v s >= s).
; It is given to the solvers as an uninterpreted function plus its defining equation fold30_def, which
; the proofs instantiate explicitly (assume_def clauses in the contracts) where an unfolding is needed.
(declare-fun fold30 (Str Int (Array Int Bool) (Array Int (_ BitVec 8))) PRes30)
(define-fun fold30_def ((v Str) (s Int) (seen (Array Int Bool)) (vals (Array Int (_ BitVec 8)))) Bool
  (= (fold30 v s seen vals)
  (ite (or (< s 0) (> s (s.len v))) (mk-pres30 Nil seen vals)
  (let ((el (substr v s (nextsep v s))))
  (let ((m (midx30 (elemkey el))))
  (ite (< m 0) (mk-pres30 (PErr T_ErrInvalidMetric (elemkey el)) seen vals)
  (ite (select seen m) (mk-pres30 (PErr T_ErrDefinedN (elemkey el)) seen vals)
  (ite (= (vcode30 m (elemval el)) #xff) (mk-pres30 ErrInvalidMetricValue seen vals)
  (fold30 v (+ (nextsep v s) 1) (store seen m true) (store vals m (vcode30 m (elemval el))))))))))))
(define-fun parseRes30 ((vector Str)) PRes30
  (ite (not (hasHeader30 vector)) (mk-pres30 ErrInvalidCVSSHeader noneSeen noVals)
  (let ((r (fold30 (substr vector HDRLEN30 (s.len vector)) 0 noneSeen noVals)))
  (ite (not (= (p.err r) Nil)) r
  (ite (>= (firstMissing30 (p.seen r)) 0) (mk-pres30 (PErr T_ErrMissing (vname30 (firstMissing30 (p.seen r)))) (p.seen r) (p.vals r))
  r)))))

; ---- C10: when do two objects have to score alike? ----
(define-fun sameBase30 ((a CVSS30) (b CVSS30)) Bool
  (and (= (f30_AV a) (f30_AV b)) (= (f30_AC a) (f30_AC b)) (= (f30_PR a) (f30_PR b)) (= (f30_UI a) (f30_UI b))
       (= (f30_S a) (f30_S b)) (= (f30_C a) (f30_C b)) (= (f30_I a) (f30_I b)) (= (f30_A a) (f30_A b))))
; undefined temporal metrics count as the value with the same weight (E:X = H, RL:X = U, RC:X = C):
; normNN_* maps a code to the first code of equal specification weight
(define-fun sameTemporal30 ((a CVSS30) (b CVSS30)) Bool
  (and (= (norm30_E (f30_E a)) (norm30_E (f30_E b))) (= (norm30_RL (f30_RL a)) (norm30_RL (f30_RL b))) (= (norm30_RC (f30_RC a)) (norm30_RC (f30_RC b)))))
(define-fun sameBaseTemporal30 ((a CVSS30) (b CVSS30)) Bool (and (sameBase30 a b) (sameTemporal30 a b)))
; environmental: same effective (Modified-or-base) values, same requirement weights (X = M), same temporal
(define-fun sameEffective30 ((a CVSS30) (b CVSS30)) Bool
  (and (= (eff30_AV a) (eff30_AV b)) (= (eff30_AC a) (eff30_AC b)) (= (eff30_PR a) (eff30_PR b)) (= (eff30_UI a) (eff30_UI b))
       (= (eff30_S a) (eff30_S b)) (= (eff30_C a) (eff30_C b)) (= (eff30_I a) (eff30_I b)) (= (eff30_A a) (eff30_A b))
       (= (norm30_CIAR (f30_CR a)) (norm30_CIAR (f30_CR b))) (= (norm30_CIAR (f30_IR a)) (norm30_CIAR (f30_IR b))) (= (norm30_CIAR (f30_AR a)) (norm30_CIAR (f30_AR b)))
       (sameTemporal30 a b)))
