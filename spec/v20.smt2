; CVSS v2.0 equations (guide section 3.2) over the reals.
; round_to_1_decimal is not defined on exact ties: k/10 is an admissible rounding of x iff |10x - k| <= 1/2.
(define-fun rnd1 ((x Real) (k Int)) Bool (<= (rabs (- (* 10.0 x) (to_real k))) 0.5))
; the integer number of tenths denoted by a float (nearest integer to 10*r)
(define-fun kof ((r F64)) Int (to_int (+ (* (fp.to_real r) 10.0) 0.5)))
(define-fun impact20 ((c CVSS20)) Real
  (* 10.41 (- 1.0 (* (- 1.0 (w20_CIA (f20_C c))) (* (- 1.0 (w20_CIA (f20_I c))) (- 1.0 (w20_CIA (f20_A c))))))))
(define-fun expl20 ((c CVSS20)) Real (* 20.0 (* (w20_AV (f20_AV c)) (* (w20_AC (f20_AC c)) (w20_Au (f20_Au c))))))
(define-fun fimp20 ((i Real)) Real (ite (= i 0.0) 0.0 1.176))
(define-fun baseEq20 ((imp Real) (ex Real)) Real (* (- (+ (* 0.6 imp) (* 0.4 ex)) 1.5) (fimp20 imp)))
(define-fun baseRel20 ((c CVSS20) (k Int)) Bool (rnd1 (baseEq20 (impact20 c) (expl20 c)) k))
(define-fun tw20 ((c CVSS20)) Real (* (w20_E (f20_E c)) (* (w20_RL (f20_RL c)) (w20_RC (f20_RC c)))))
(define-fun tempRel20 ((kb Int) (c CVSS20) (k Int)) Bool (rnd1 (* (/ (to_real kb) 10.0) (tw20 c)) k))
(define-fun adjImpact20 ((c CVSS20)) Real
  (rmin 10.0 (* 10.41 (- 1.0 (* (- 1.0 (* (w20_CIA (f20_C c)) (w20_CIAR (f20_CR c))))
                             (* (- 1.0 (* (w20_CIA (f20_I c)) (w20_CIAR (f20_IR c))))
                                (- 1.0 (* (w20_CIA (f20_A c)) (w20_CIAR (f20_AR c))))))))))
(define-fun adjBaseRel20 ((c CVSS20) (k Int)) Bool (rnd1 (baseEq20 (adjImpact20 c) (expl20 c)) k))
(define-fun envRel20 ((kt Int) (c CVSS20) (k Int)) Bool
  (rnd1 (* (+ (/ (to_real kt) 10.0) (* (- 10.0 (/ (to_real kt) 10.0)) (w20_CDP (f20_CDP c)))) (w20_TD (f20_TD c))) k))
