; CVSS v2.0 equations (guide section 3.2) over the reals.
; round_to_1_decimal is not defined on exact ties: k/10 is an admissible rounding of x iff |10x - k| <= 1/2.
(define-fun rnd1 ((x Real) (k Int)) Bool (<= (rabs (- (* 10.0 x) (to_real k))) 0.5))
(define-fun impact20 ((c CVSS20)) Real
  (* 10.41 (- 1.0 (* (- 1.0 (w20_CIA (f20_C c))) (* (- 1.0 (w20_CIA (f20_I c))) (- 1.0 (w20_CIA (f20_A c))))))))
(define-fun expl20 ((c CVSS20)) Real (* 20.0 (* (w20_AV (f20_AV c)) (* (w20_AC (f20_AC c)) (w20_Au (f20_Au c))))))
(define-fun fimp20 ((i Real)) Real (ite (= i 0.0) 0.0 1.176))
(define-fun baseEq20 ((imp Real) (ex Real)) Real (* (- (+ (* 0.6 imp) (* 0.4 ex)) 1.5) (fimp20 imp)))
(define-fun baseRel20 ((c CVSS20) (k Int)) Bool (rnd1 (baseEq20 (impact20 c) (expl20 c)) k))
(define-fun tw20 ((c CVSS20)) Real (* (w20_E (f20_E c)) (* (w20_RL (f20_RL c)) (w20_RC (f20_RC c)))))
(define-fun tempRel20 ((kb Int) (c CVSS20) (k Int)) Bool (rnd1 (* (/ (to_real kb) 10.0) (tw20 c)) k))
(define-fun adjImpact20 ((c CVSS20)) Real
  (rmin 10.0 (* 10.41 (- 1.0 (* (- 1.0 (* (w20_CIA (f20_C c)) (w20_CIAR (f20_CR c))))
                             (* (- 1.0 (* (w20_CIA (f20_I c)) (w20_CIAR (f20_IR c))))
                                (- 1.0 (* (w20_CIA (f20_A c)) (w20_CIAR (f20_AR c))))))))))
(define-fun adjBaseRel20 ((c CVSS20) (k Int)) Bool (rnd1 (baseEq20 (adjImpact20 c) (expl20 c)) k))
(define-fun envRel20 ((kt Int) (c CVSS20) (k Int)) Bool
  (rnd1 (* (+ (/ (to_real kt) 10.0) (* (- 10.0 (/ (to_real kt) 10.0)) (w20_CDP (f20_CDP c)))) (w20_TD (f20_TD c))) k))

; ---- ParseVector (C01, C06, C13, C14, C18): reference fold over at most 14 '/'-separated segments ----
; Segment k (k < 13) is the k-th maximal '/'-free piece; segment 13, if reached, is the whole remainder
; (the implementation splits into at most 14 parts).  segstart/segend give their positions.
(define-fun seg20_0 ((v Str)) Int 0)
(define-fun segend20_0 ((v Str)) Int (nextsep v (seg20_0 v)))
(define-fun seg20_1 ((v Str)) Int (+ (segend20_0 v) 1))
(define-fun segend20_1 ((v Str)) Int (nextsep v (seg20_1 v)))
(define-fun seg20_2 ((v Str)) Int (+ (segend20_1 v) 1))
(define-fun segend20_2 ((v Str)) Int (nextsep v (seg20_2 v)))
(define-fun seg20_3 ((v Str)) Int (+ (segend20_2 v) 1))
(define-fun segend20_3 ((v Str)) Int (nextsep v (seg20_3 v)))
(define-fun seg20_4 ((v Str)) Int (+ (segend20_3 v) 1))
(define-fun segend20_4 ((v Str)) Int (nextsep v (seg20_4 v)))
(define-fun seg20_5 ((v Str)) Int (+ (segend20_4 v) 1))
(define-fun segend20_5 ((v Str)) Int (nextsep v (seg20_5 v)))
(define-fun seg20_6 ((v Str)) Int (+ (segend20_5 v) 1))
(define-fun segend20_6 ((v Str)) Int (nextsep v (seg20_6 v)))
(define-fun seg20_7 ((v Str)) Int (+ (segend20_6 v) 1))
(define-fun segend20_7 ((v Str)) Int (nextsep v (seg20_7 v)))
(define-fun seg20_8 ((v Str)) Int (+ (segend20_7 v) 1))
(define-fun segend20_8 ((v Str)) Int (nextsep v (seg20_8 v)))
(define-fun seg20_9 ((v Str)) Int (+ (segend20_8 v) 1))
(define-fun segend20_9 ((v Str)) Int (nextsep v (seg20_9 v)))
(define-fun seg20_10 ((v Str)) Int (+ (segend20_9 v) 1))
(define-fun segend20_10 ((v Str)) Int (nextsep v (seg20_10 v)))
(define-fun seg20_11 ((v Str)) Int (+ (segend20_10 v) 1))
(define-fun segend20_11 ((v Str)) Int (nextsep v (seg20_11 v)))
(define-fun seg20_12 ((v Str)) Int (+ (segend20_11 v) 1))
(define-fun segend20_12 ((v Str)) Int (nextsep v (seg20_12 v)))
(define-fun seg20_13 ((v Str)) Int (+ (segend20_12 v) 1))
(define-fun segend20_13 ((v Str)) Int (s.len v))
(define-fun seg20_14 ((v Str)) Int (+ (segend20_13 v) 1))
(define-fun segstart20 ((v Str) (k Int)) Int (ite (= k 0) (seg20_0 v) (ite (= k 1) (seg20_1 v) (ite (= k 2) (seg20_2 v) (ite (= k 3) (seg20_3 v) (ite (= k 4) (seg20_4 v) (ite (= k 5) (seg20_5 v) (ite (= k 6) (seg20_6 v) (ite (= k 7) (seg20_7 v) (ite (= k 8) (seg20_8 v) (ite (= k 9) (seg20_9 v) (ite (= k 10) (seg20_10 v) (ite (= k 11) (seg20_11 v) (ite (= k 12) (seg20_12 v) (ite (= k 13) (seg20_13 v) (seg20_14 v))))))))))))))))
(define-fun segend20 ((v Str) (k Int)) Int (ite (= k 0) (segend20_0 v) (ite (= k 1) (segend20_1 v) (ite (= k 2) (segend20_2 v) (ite (= k 3) (segend20_3 v) (ite (= k 4) (segend20_4 v) (ite (= k 5) (segend20_5 v) (ite (= k 6) (segend20_6 v) (ite (= k 7) (segend20_7 v) (ite (= k 8) (segend20_8 v) (ite (= k 9) (segend20_9 v) (ite (= k 10) (segend20_10 v) (ite (= k 11) (segend20_11 v) (ite (= k 12) (segend20_12 v) (s.len v)))))))))))))))
(declare-datatypes ((PRes20 0)) (((mk-pres20 (p.err Err) (p.pos Int) (p.vals (Array Int (_ BitVec 8))) (p.rule Int)))))
(define-fun noVals () (Array Int (_ BitVec 8)) ((as const (Array Int (_ BitVec 8))) #x00))
; pos = index (in vector order) of the next expected metric.  Base metrics (0..5) are mandatory; at the
; start of the temporal group (6) an element that is not E starts the environmental group (9) instead.
; The first defect decides the error.  p.rule records two special situations in which the property
; (C18: "a misplaced, repeated or unknown metric yields ErrInvalidMetricOrder") is what the spec
; demands: rule 4 = an element follows the complete environmental group; rule 5 = the 14th segment is
; itself the expected AR metric with a legal value but is followed by further elements.
; fold20 is a recursive definition with measure (s.len v) + 1 - s; see fold20_def.
(declare-fun fold20 (Str Int Int Int (Array Int (_ BitVec 8))) PRes20)
(define-fun fold20_def ((v Str) (s Int) (k Int) (pos Int) (vals (Array Int (_ BitVec 8)))) Bool
  (= (fold20 v s k pos vals)
  (ite (or (< s 0) (> s (s.len v))) (mk-pres20 Nil pos vals 0)
  (let ((e (ite (>= k 13) (s.len v) (nextsep v s))))
  (let ((el (substr v s e)) (el13 (substr v s (nextsep v s))))
  (ite (>= pos NM20) (mk-pres20 ErrInvalidMetricOrder pos vals 4)
  (let ((p (ite (and (= pos (goff20 1)) (not (= (midx20 (elemkey el)) pos))) (goff20 2) pos)))
  (ite (and (>= k 13) (< (nextsep v s) (s.len v)) (= (midx20 (elemkey el13)) p) (not (= (vcode20 p (elemval el13)) #xff)))
       (mk-pres20 ErrInvalidMetricOrder pos vals 5)
  (ite (not (= (midx20 (elemkey el)) p)) (mk-pres20 ErrInvalidMetricOrder pos vals 0)
  (ite (= (vcode20 p (elemval el)) #xff) (mk-pres20 ErrInvalidMetricValue pos vals 0)
  (fold20 v (+ e 1) (+ k 1) (+ p 1) (store vals p (vcode20 p (elemval el))))))))))))))
(define-fun parseRes20 ((vector Str)) PRes20
  (let ((r (fold20 vector 0 0 0 noVals)))
  (ite (not (= (p.err r) Nil)) r
  (ite (not (or (= (p.pos r) (goff20 1)) (= (p.pos r) (goff20 2)) (= (p.pos r) NM20))) (mk-pres20 ErrTooShortVector (p.pos r) (p.vals r) 0)
  r))))
