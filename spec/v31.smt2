; CVSS v3.x equations (specification section 7.1-7.3) over the reals.  31 = 30 or 31.
; Codes are those of the representation; weights come from the spec tables via wNN_* (generated).
(define-fun isCh31 ((scode BV8)) Bool (isv31_S_C scode))
(define-fun iss31 ((c CVSS31)) Real
  (- 1.0 (* (- 1.0 (w31_CIA (f31_C c))) (* (- 1.0 (w31_CIA (f31_I c))) (- 1.0 (w31_CIA (f31_A c)))))))
(define-fun impact31 ((c CVSS31)) Real
  (ite (isCh31 (f31_S c))
       (- (* 7.52 (- (iss31 c) 0.029)) (* 3.25 (pow15r (- (iss31 c) 0.02))))
       (* 6.42 (iss31 c))))
(define-fun prw31 ((pr BV8) (s BV8)) Real (ite (isCh31 s) (w31_PRC pr) (w31_PRU pr)))
(define-fun expl31 ((c CVSS31)) Real
  (* 8.22 (* (w31_AV (f31_AV c)) (* (w31_AC (f31_AC c)) (* (prw31 (f31_PR c) (f31_S c)) (w31_UI (f31_UI c)))))))
(define-fun base31K ((c CVSS31)) Int
  (ite (<= (impact31 c) 0.0) 0
  (ite (isCh31 (f31_S c))
       (roundup31 (rmin (* 1.08 (+ (impact31 c) (expl31 c))) 10.0))
       (roundup31 (rmin (+ (impact31 c) (expl31 c)) 10.0)))))
(define-fun tw31 ((c CVSS31)) Real (* (w31_E (f31_E c)) (* (w31_RL (f31_RL c)) (w31_RC (f31_RC c)))))
(define-fun temporalFrom31 ((bk Int) (c CVSS31)) Int (roundup31 (* (/ (to_real bk) 10.0) (tw31 c))))
(define-fun temporal31K ((c CVSS31)) Int (temporalFrom31 (base31K c) c))
; environmental: effective (modified-or-base) values eff31_X are generated from the 'modifies' table
(define-fun miss31 ((c CVSS31)) Real
  (rmin (- 1.0 (* (- 1.0 (* (w31_CIAR (f31_CR c)) (w31_CIA (eff31_C c))))
               (* (- 1.0 (* (w31_CIAR (f31_IR c)) (w31_CIA (eff31_I c))))
                  (- 1.0 (* (w31_CIAR (f31_AR c)) (w31_CIA (eff31_A c))))))) 0.915))
(define-fun mimpact31 ((c CVSS31)) Real
  (ite (isCh31 (eff31_S c))
       (- (* 7.52 (- (miss31 c) 0.029)) (* 3.25 (pow13r (- (* (miss31 c) 0.9731) 0.02))))
       (* 6.42 (miss31 c))))
(define-fun mexpl31 ((c CVSS31)) Real
  (* 8.22 (* (w31_AV (eff31_AV c)) (* (w31_AC (eff31_AC c)) (* (prw31 (eff31_PR c) (eff31_S c)) (w31_UI (eff31_UI c)))))))
(define-fun envInner31K ((c CVSS31)) Int
  (ite (isCh31 (eff31_S c))
       (roundup31 (rmin (* 1.08 (+ (mimpact31 c) (mexpl31 c))) 10.0))
       (roundup31 (rmin (+ (mimpact31 c) (mexpl31 c)) 10.0))))
; the zero-impact flag and the outer stage as a function of (flag, inner value, temporal metrics):
; the flag and the inner value are the two cut points of the case split (DESIGN 3.3)
(define-fun envZero31 ((c CVSS31)) Bool (<= (mimpact31 c) 0.0))
(define-fun envFromZ31 ((z Bool) (ik Int) (c CVSS31)) Int
  (ite z 0 (roundup31 (* (/ (to_real ik) 10.0) (tw31 c)))))
(define-fun envFrom31 ((ik Int) (c CVSS31)) Int (envFromZ31 (envZero31 c) ik c))
(define-fun env31K ((c CVSS31)) Int (envFrom31 (envInner31K c) c))

; ---- ParseVector (C01, C06, C13, C18): reference fold over the '/'-separated elements ----
; State: which metrics were seen, and the code stored for each.  Elements are processed left to right;
; the first defect decides the error.  (seen, vals) are indexed by the metric's position in the spec.
(declare-datatypes ((PRes31 0)) (((mk-pres31 (p.err Err) (p.seen (Array Int Bool)) (p.vals (Array Int (_ BitVec 8)))))))
(define-fun noneSeen () (Array Int Bool) ((as const (Array Int Bool)) false))
(define-fun noVals () (Array Int (_ BitVec 8)) ((as const (Array Int (_ BitVec 8))) #x00))
; fold31 is a recursive definition (measure: (s.len v) + 1 - s, which decreases because nextsep v s >= s).
; It is given to the solvers as an uninterpreted function plus its defining equation fold31_def, which
; the proofs instantiate explicitly (assume_def clauses in the contracts) where an unfolding is needed.
(declare-fun fold31 (Str Int (Array Int Bool) (Array Int (_ BitVec 8))) PRes31)
(define-fun fold31_def ((v Str) (s Int) (seen (Array Int Bool)) (vals (Array Int (_ BitVec 8)))) Bool
  (= (fold31 v s seen vals)
  (ite (or (< s 0) (> s (s.len v))) (mk-pres31 Nil seen vals)
  (let ((el (substr v s (nextsep v s))))
  (let ((m (midx31 (elemkey el))))
  (ite (< m 0) (mk-pres31 (PErr T_ErrInvalidMetric (elemkey el)) seen vals)
  (ite (select seen m) (mk-pres31 (PErr T_ErrDefinedN (elemkey el)) seen vals)
  (ite (= (vcode31 m (elemval el)) #xff) (mk-pres31 ErrInvalidMetricValue seen vals)
  (fold31 v (+ (nextsep v s) 1) (store seen m true) (store vals m (vcode31 m (elemval el))))))))))))
(define-fun parseRes31 ((vector Str)) PRes31
  (ite (not (hasHeader31 vector)) (mk-pres31 ErrInvalidCVSSHeader noneSeen noVals)
  (let ((r (fold31 (substr vector HDRLEN31 (s.len vector)) 0 noneSeen noVals)))
  (ite (not (= (p.err r) Nil)) r
  (ite (>= (firstMissing31 (p.seen r)) 0) (mk-pres31 (PErr T_ErrMissing (vname31 (firstMissing31 (p.seen r)))) (p.seen r) (p.vals r))
  r)))))

; ---- C10: when do two objects have to score alike? ----
(define-fun sameBase31 ((a CVSS31) (b CVSS31)) Bool
  (and (= (f31_AV a) (f31_AV b)) (= (f31_AC a) (f31_AC b)) (= (f31_PR a) (f31_PR b)) (= (f31_UI a) (f31_UI b))
       (= (f31_S a) (f31_S b)) (= (f31_C a) (f31_C b)) (= (f31_I a) (f31_I b)) (= (f31_A a) (f31_A b))))
; undefined temporal metrics count as the value with the same weight (E:X = H, RL:X = U, RC:X = C):
; normNN_* maps a code to the first code of equal specification weight
(define-fun sameTemporal31 ((a CVSS31) (b CVSS31)) Bool
  (and (= (norm31_E (f31_E a)) (norm31_E (f31_E b))) (= (norm31_RL (f31_RL a)) (norm31_RL (f31_RL b))) (= (norm31_RC (f31_RC a)) (norm31_RC (f31_RC b)))))
(define-fun sameBaseTemporal31 ((a CVSS31) (b CVSS31)) Bool (and (sameBase31 a b) (sameTemporal31 a b)))
; environmental: same effective (Modified-or-base) values, same requirement weights (X = M), same temporal
(define-fun sameEffective31 ((a CVSS31) (b CVSS31)) Bool
  (and (= (eff31_AV a) (eff31_AV b)) (= (eff31_AC a) (eff31_AC b)) (= (eff31_PR a) (eff31_PR b)) (= (eff31_UI a) (eff31_UI b))
       (= (eff31_S a) (eff31_S b)) (= (eff31_C a) (eff31_C b)) (= (eff31_I a) (eff31_I b)) (= (eff31_A a) (eff31_A b))
       (= (norm31_CIAR (f31_CR a)) (norm31_CIAR (f31_CR b))) (= (norm31_CIAR (f31_IR a)) (norm31_CIAR (f31_IR b))) (= (norm31_CIAR (f31_AR a)) (norm31_CIAR (f31_AR b)))
       (sameTemporal31 a b)))
