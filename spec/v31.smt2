; CVSS v3.x equations (specification section 7.1-7.3) over the reals.  31 = 30 or 31.
; Codes are those of the representation; weights come from the spec tables via wNN_* (generated).
(define-fun isCh31 ((scode BV8)) Bool (isv31_S_C scode))
(define-fun iss31 ((c CVSS31)) Real
  (- 1.0 (* (- 1.0 (w31_CIA (f31_C c))) (* (- 1.0 (w31_CIA (f31_I c))) (- 1.0 (w31_CIA (f31_A c)))))))
(define-fun impact31 ((c CVSS31)) Real
  (ite (isCh31 (f31_S c))
       (- (* 7.52 (- (iss31 c) 0.029)) (* 3.25 (pow15r (- (iss31 c) 0.02))))
       (* 6.42 (iss31 c))))
(define-fun prw31 ((pr BV8) (s BV8)) Real (ite (isCh31 s) (w31_PRC pr) (w31_PRU pr)))
(define-fun expl31 ((c CVSS31)) Real
  (* 8.22 (* (w31_AV (f31_AV c)) (* (w31_AC (f31_AC c)) (* (prw31 (f31_PR c) (f31_S c)) (w31_UI (f31_UI c)))))))
(define-fun base31K ((c CVSS31)) Int
  (ite (<= (impact31 c) 0.0) 0
  (ite (isCh31 (f31_S c))
       (roundup31 (rmin (* 1.08 (+ (impact31 c) (expl31 c))) 10.0))
       (roundup31 (rmin (+ (impact31 c) (expl31 c)) 10.0)))))
(define-fun tw31 ((c CVSS31)) Real (* (w31_E (f31_E c)) (* (w31_RL (f31_RL c)) (w31_RC (f31_RC c)))))
(define-fun temporalFrom31 ((bk Int) (c CVSS31)) Int (roundup31 (* (/ (to_real bk) 10.0) (tw31 c))))
(define-fun temporal31K ((c CVSS31)) Int (temporalFrom31 (base31K c) c))
; environmental: effective (modified-or-base) values eff31_X are generated from the 'modifies' table
(define-fun miss31 ((c CVSS31)) Real
  (rmin (- 1.0 (* (- 1.0 (* (w31_CIAR (f31_CR c)) (w31_CIA (eff31_C c))))
               (* (- 1.0 (* (w31_CIAR (f31_IR c)) (w31_CIA (eff31_I c))))
                  (- 1.0 (* (w31_CIAR (f31_AR c)) (w31_CIA (eff31_A c))))))) 0.915))
(define-fun mimpact31 ((c CVSS31)) Real
  (ite (isCh31 (eff31_S c))
       (- (* 7.52 (- (miss31 c) 0.029)) (* 3.25 (pow13r (- (* (miss31 c) 0.9731) 0.02))))
       (* 6.42 (miss31 c))))
(define-fun mexpl31 ((c CVSS31)) Real
  (* 8.22 (* (w31_AV (eff31_AV c)) (* (w31_AC (eff31_AC c)) (* (prw31 (eff31_PR c) (eff31_S c)) (w31_UI (eff31_UI c)))))))
(define-fun envInner31K ((c CVSS31)) Int
  (ite (isCh31 (eff31_S c))
       (roundup31 (rmin (* 1.08 (+ (mimpact31 c) (mexpl31 c))) 10.0))
       (roundup31 (rmin (+ (mimpact31 c) (mexpl31 c)) 10.0))))
(define-fun envFrom31 ((ik Int) (c CVSS31)) Int
  (ite (<= (mimpact31 c) 0.0) 0 (roundup31 (* (/ (to_real ik) 10.0) (tw31 c)))))
(define-fun env31K ((c CVSS31)) Int (envFrom31 (envInner31K c) c))
