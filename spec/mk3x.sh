#!/bin/sh
# regenerates v30.smt2 / v31.smt2 from the shared template
cd /verif/spec
sed -e 's/{V}/31/g' -e 's/{ROUNDUP}/roundup31/g' -e 's/{MIMPACT_CHANGED}/(- (* 7.52 (- (miss31 c) 0.029)) (* 3.25 (pow13r (- (* (miss31 c) 0.9731) 0.02))))/' v3x.smt2.tmpl > v31.smt2
sed -e 's/{V}/30/g' -e 's/{ROUNDUP}/roundup10/g' -e 's/{MIMPACT_CHANGED}/(- (* 7.52 (- (miss30 c) 0.029)) (* 3.25 (pow15r (- (miss30 c) 0.02))))/' v3x.smt2.tmpl > v30.smt2
