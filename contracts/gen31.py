#!/usr/bin/env python3
# Generates the v3.0 / v3.1 contract files (they differ only in names).
import sys
v=sys.argv[1]
T=f"CVSS{v}"; r=f"cvss{v}"
N=22
out=f'''//go:build verif

// Contracts for contract-based deductive verification (govc).  This file is comment-only: it adds
// no code and is compiled only with the build tag "verif".
// Syntax: //@ lines; see /verif/DESIGN.md section 2.4.

package gocvss{v}

//@ repr {T}
//@ bytes 6
//@ field AV  u0[7:6] codes N A L P
//@ field AC  u0[5:5] codes L H
//@ field PR  u0[4:3] codes N L H
//@ field UI  u0[2:2] codes N R
//@ field S   u0[1:1] codes U C
//@ field C   u0[0:0]+u1[7:7] codes H L N
//@ field I   u1[6:5] codes H L N
//@ field A   u1[4:3] codes H L N
//@ field E   u1[2:0] codes X H F P U
//@ field RL  u2[7:5] codes X U W T O
//@ field RC  u2[4:3] codes X C R U
//@ field CR  u2[2:1] codes X H M L
//@ field IR  u2[0:0]+u3[7:7] codes X H M L
//@ field AR  u3[6:5] codes X H M L
//@ field MAV u3[4:2] codes X N A L P
//@ field MAC u3[1:0] codes X L H
//@ field MPR u4[7:6] codes X N L H
//@ field MUI u4[5:4] codes X N R
//@ field MS  u4[3:2] codes X U C
//@ field MC  u4[1:0] codes X H L N
//@ field MI  u5[7:6] codes X H L N
//@ field MA  u5[5:4] codes X H L N
//@ unused u5[3:0]

//@ func (*{T}).Set({r}, abv, value)
//@   requires[wf] (wf{v} {r})
//@   inline validate
//@   modifies {r}
//@   ensures[ok_iff_legal] (= (isnil result) (and (>= (midx{v} abv) 0) (not (= (vcode{v} (midx{v} abv) value) #xff))))
//@   ensures[sets_metric] (=> (isnil result) (= (field{v} {r} (midx{v} abv)) (vcode{v} (midx{v} abv) value)))
//@   ensures[frame_other_metrics] (forall-in (m 0 {N-1}) (=> (not (and (isnil result) (= m (midx{v} abv)))) (= (field{v} {r} m) (field{v} (old {r}) m))))
//@   ensures[fail_unchanged] (=> (not (isnil result)) (= {r} (old {r})))
//@   ensures[wf_preserved] (wf{v} {r})
//@   ensures[err_unknown_metric] (=> (< (midx{v} abv) 0) (and (is-ErrInvalidMetric result) (str= (pabv result) abv)))
//@   ensures[err_illegal_value] (=> (and (>= (midx{v} abv) 0) (= (vcode{v} (midx{v} abv) value) #xff)) (= result ErrInvalidMetricValue))

//@ func ({T}).Get({r}, abv)
//@   requires[wf] (wf{v} {r})
//@   ensures[known_metric_value] (=> (>= (midx{v} abv) 0) (and (isnil result.1) (= (vcode{v} (midx{v} abv) result.0) (field{v} {r} (midx{v} abv))) (not (= (vcode{v} (midx{v} abv) result.0) #xff))))
//@   ensures[nonempty] (=> (>= (midx{v} abv) 0) (> (len result.0) 0))
//@   ensures[unknown_metric] (=> (< (midx{v} abv) 0) (and (is-ErrInvalidMetric result.1) (str= (pabv result.1) abv) (= (len result.0) 0)))
'''
open(f'/verif/contracts/zz_contracts_verif_{v}.go','w').write(out)
