#!/usr/bin/env python3
"""Authoring tool for the contract files committed to /repo/NN/zz_contracts_verif.go.

The files in /repo are the source of truth read by govc on every run; this script only avoids
writing the four near-identical files by hand.  Usage: gen.py <outdir>
"""
import sys, os

HEAD = '''//go:build verif

// Contracts for contract-based deductive verification with govc (see /verif/DESIGN.md).
// This file is comment-only: it adds no code and is compiled only with the build tag "verif".
// One clause per //@ line (continued while parentheses are open).  Vocabulary: the spec functions
// generated from /verif/spec/v{v}.spec and the representation declared below (field{v}, midx{v},
// vcode{v}, vstr{v}, wf{v}, ...), plus /verif/spec/common.smt2 and /verif/spec/v{v}.smt2.

package gocvss{v}
'''

V3_LAYOUT = '''
//@ repr {T}
//@ bytes 6
//@ field AV  u0[7:6] codes N A L P
//@ field AC  u0[5:5] codes L H
//@ field PR  u0[4:3] codes N L H
//@ field UI  u0[2:2] codes N R
//@ field S   u0[1:1] codes U C
//@ field C   u0[0:0]+u1[7:7] codes H L N
//@ field I   u1[6:5] codes H L N
//@ field A   u1[4:3] codes H L N
//@ field E   u1[2:0] codes X H F P U
//@ field RL  u2[7:5] codes X U W T O
//@ field RC  u2[4:3] codes X C R U
//@ field CR  u2[2:1] codes X H M L
//@ field IR  u2[0:0]+u3[7:7] codes X H M L
//@ field AR  u3[6:5] codes X H M L
//@ field MAV u3[4:2] codes X N A L P
//@ field MAC u3[1:0] codes X L H
//@ field MPR u4[7:6] codes X N L H
//@ field MUI u4[5:4] codes X N R
//@ field MS  u4[3:2] codes X U C
//@ field MC  u4[1:0] codes X H L N
//@ field MI  u5[7:6] codes X H L N
//@ field MA  u5[5:4] codes X H L N
//@ unused u5[3:0]
'''

V2_LAYOUT = '''
//@ repr CVSS20
//@ bytes 4
//@ field AV  u0[7:6] codes L A N
//@ field AC  u0[5:4] codes L M H
//@ field Au  u0[3:2] codes M S N
//@ field C   u0[1:0] codes N P C
//@ field I   u1[7:6] codes N P C
//@ field A   u1[5:4] codes N P C
//@ field E   u1[3:1] codes ND U POC F H
//@ field RL  u1[0:0]+u2[7:6] codes ND OF TF W U
//@ field RC  u2[5:4] codes ND UC UR C
//@ field CDP u2[3:1] codes ND N L LM MH H
//@ field TD  u2[0:0]+u3[7:6] codes ND N L M H
//@ field CR  u3[5:4] codes ND L M H
//@ field IR  u3[3:2] codes ND L M H
//@ field AR  u3[1:0] codes ND L M H
'''

V4_LAYOUT = '''
//@ repr CVSS40
//@ bytes 9
//@ field AV  u0[7:6] codes N A L P
//@ field AC  u0[5:5] codes H L
//@ field AT  u0[4:4] codes N P
//@ field PR  u0[3:2] codes H L N
//@ field UI  u0[1:0] codes N P A
//@ field VC  u1[7:6] codes H L N
//@ field SC  u1[5:4] codes H L N
//@ field VI  u1[3:2] codes H L N
//@ field SI  u1[1:0] codes H L N
//@ field VA  u2[7:6] codes H L N
//@ field SA  u2[5:4] codes H L N
//@ field E   u2[3:2] codes X A P U
//@ field CR  u2[1:0] codes X H M L
//@ field IR  u3[7:6] codes X H M L
//@ field AR  u3[5:4] codes X H M L
//@ field MAV u3[3:1] codes X N A L P
//@ field MAC u3[0:0]+u4[7:7] codes X H L
//@ field MAT u4[6:5] codes X N P
//@ field MPR u4[4:3] codes X H L N
//@ field MUI u4[2:1] codes X N P A
//@ field MVC u4[0:0]+u5[7:7] codes X H L N
//@ field MVI u5[6:5] codes X H L N
//@ field MVA u5[4:3] codes X H L N
//@ field MSC u5[2:1] codes X H L N
//@ field MSI u5[0:0]+u6[7:6] codes X H L N S
//@ field MSA u6[5:3] codes X H L N S
//@ field S   u6[2:1] codes X N P
//@ field AU  u6[0:0]+u7[7:7] codes X N Y
//@ field R   u7[6:5] codes X A U I
//@ field V   u7[4:3] codes X D C
//@ field RE  u7[2:1] codes X L M H
//@ field U   u7[0:0]+u8[7:6] codes X Clear Green Amber Red
//@ unused u8[5:0]
'''

NMETRICS = {'20': 14, '30': 22, '31': 22, '40': 32}

SETGET = '''
// ---- Set / Get / validate (C07, C09, C06, C18) ----

//@ func (*{T}).Set({r}, abv, value)
//@   requires[wf] (wf{v} {r})
//@   inline validate
//@   modifies {r}
//@   ensures[ok_iff_legal] (= (isnil result) (and (>= (midx{v} abv) 0) (not (= (vcode{v} (midx{v} abv) value) #xff))))
//@   ensures[sets_metric] (=> (isnil result) (= (field{v} {r} (midx{v} abv)) (vcode{v} (midx{v} abv) value)))
//@   ensures[frame_other_metrics] (forall-in (m 0 {N1}) (=> (not (and (isnil result) (= m (midx{v} abv)))) (= (field{v} {r} m) (field{v} (old {r}) m))))
//@   ensures[fail_unchanged] (=> (not (isnil result)) (= {r} (old {r})))
//@   ensures[wf_preserved] (wf{v} {r})
//@   ensures[vals_array] (=> (isnil result) (= (valsarr{v} {r}) (store (valsarr{v} (old {r})) (midx{v} abv) (vcode{v} (midx{v} abv) value))))
//@   ensures[error_value] (=> (not (isnil result)) (= result (ite (< (midx{v} abv) 0) (PErr T_ErrInvalidMetric abv) ErrInvalidMetricValue)))
//@   ensures[err_unknown_metric] (=> (< (midx{v} abv) 0) (and (is-ErrInvalidMetric result) (str= (pabv result) abv)))
//@   ensures[err_illegal_value] (=> (and (>= (midx{v} abv) 0) (= (vcode{v} (midx{v} abv) value) #xff)) (= result ErrInvalidMetricValue))
//@   ensures[no_allocation_known_metric] (=> (>= (midx{v} abv) 0) (= allocs (old allocs)))

//@ func ({T}).Get({r}, abv)
//@   requires[wf] (wf{v} {r})
//@   ensures[known_metric_value] (=> (>= (midx{v} abv) 0) (and (isnil result.1) (= (vcode{v} (midx{v} abv) result.0) (field{v} {r} (midx{v} abv))) (not (= (vcode{v} (midx{v} abv) result.0) #xff))))
//@   ensures[nonempty] (=> (>= (midx{v} abv) 0) (> (len result.0) 0))
//@   ensures[unknown_metric] (=> (< (midx{v} abv) 0) (and (is-ErrInvalidMetric result.1) (str= (pabv result.1) abv) (= (len result.0) 0)))
//@   ensures[no_allocation_known_metric] (=> (>= (midx{v} abv) 0) (= allocs (old allocs)))

//@ func validate(value, enabled)
//@   requires[short_list] (<= (len enabled) 255)
//@   loop 1 invariant[bounds] (and (<= (- 1) rangeindex) (< rangeindex (len enabled)) (= (bv2nat i) (+ rangeindex 1)))
//@   loop 1 invariant[none_before] (forall ((k Int)) (! (=> (and (<= 0 k) (<= k rangeindex)) (not (streq value (at enabled k)))) :pattern ((at enabled k))))
//@   loop 1 decreases (- (len enabled) rangeindex)
//@   ensures[found_first] (=> (isnil result.1) (and (< (bv2nat result.0) (len enabled)) (streq value (at enabled (bv2nat result.0))) (forall ((k Int)) (! (=> (and (<= 0 k) (< k (bv2nat result.0))) (not (streq value (at enabled k)))) :pattern ((at enabled k))))))
//@   ensures[not_found] (=> (not (isnil result.1)) (and (= result.1 ErrInvalidMetricValue) (= result.0 #x00) (forall ((k Int)) (! (=> (and (<= 0 k) (< k (len enabled))) (not (streq value (at enabled k)))) :pattern ((at enabled k))))))
'''

GET_V3 = '''
//@ func ({T}).get({r}, abv)
//@   requires[wf] (wf{v} {r})
//@   inline Get
//@   ensures[value] (=> (>= (midx{v} abv) 0) (and (= (vcode{v} (midx{v} abv) result) (field{v} {r} (midx{v} abv))) (not (= (vcode{v} (midx{v} abv) result) #xff)) (> (len result) 0)))
'''

GET_V2 = '''
//@ func (CVSS20).get(cvss20, abv)
//@   requires[wf] (wf20 cvss20)
//@   requires[known_metric] (>= (midx20 abv) 0)
//@   inline Get
//@   ensures[value] (and (= (vcode20 (midx20 abv) result) (field20 cvss20 (midx20 abv))) (not (= (vcode20 (midx20 abv) result) #xff)) (> (len result) 0))
'''

MOD = '''
//@ func mod(base, modified) pure
'''

KVM = '''
// ---- kvm: "already seen" flags of the v3 parser (C01, C18) ----

//@ smt (define-fun kvmflag ((k kvm) (m Int)) Bool (ite (= m 0) (kvm.av k) (ite (= m 1) (kvm.ac k) (ite (= m 2) (kvm.pr k) (ite (= m 3) (kvm.ui k) (ite (= m 4) (kvm.s k) (ite (= m 5) (kvm.c k) (ite (= m 6) (kvm.i k) (ite (= m 7) (kvm.a k) (ite (= m 8) (kvm.e k) (ite (= m 9) (kvm.rl k) (ite (= m 10) (kvm.rc k) (ite (= m 11) (kvm.cr k) (ite (= m 12) (kvm.ir k) (ite (= m 13) (kvm.ar k) (ite (= m 14) (kvm.mav k) (ite (= m 15) (kvm.mac k) (ite (= m 16) (kvm.mpr k) (ite (= m 17) (kvm.mui k) (ite (= m 18) (kvm.ms k) (ite (= m 19) (kvm.mc k) (ite (= m 20) (kvm.mi k) (ite (= m 21) (kvm.ma k) false)))))))))))))))))))))))

//@ smt (define-fun kvmarr ((k kvm)) (Array Int Bool) (store (store (store (store (store (store (store (store (store (store (store (store (store (store (store (store (store (store (store (store (store (store ((as const (Array Int Bool)) false) 0 (kvm.av k)) 1 (kvm.ac k)) 2 (kvm.pr k)) 3 (kvm.ui k)) 4 (kvm.s k)) 5 (kvm.c k)) 6 (kvm.i k)) 7 (kvm.a k)) 8 (kvm.e k)) 9 (kvm.rl k)) 10 (kvm.rc k)) 11 (kvm.cr k)) 12 (kvm.ir k)) 13 (kvm.ar k)) 14 (kvm.mav k)) 15 (kvm.mac k)) 16 (kvm.mpr k)) 17 (kvm.mui k)) 18 (kvm.ms k)) 19 (kvm.mc k)) 20 (kvm.mi k)) 21 (kvm.ma k)))

//@ func (*kvm).Set(kvm, abv)
//@   modifies kvm
//@   ensures[unknown] (=> (< (midx{v} abv) 0) (and (is-ErrInvalidMetric result) (str= (pabv result) abv) (= kvm (old kvm))))
//@   ensures[duplicate] (=> (and (>= (midx{v} abv) 0) (kvmflag (old kvm) (midx{v} abv))) (and (is-ErrDefinedN result) (str= (pabv result) abv) (= kvm (old kvm))))
//@   ensures[fresh] (=> (and (>= (midx{v} abv) 0) (not (kvmflag (old kvm) (midx{v} abv)))) (and (isnil result) (forall-in (m 0 21) (= (kvmflag kvm m) (or (kvmflag (old kvm) m) (= m (midx{v} abv)))))))
//@   ensures[seen_array] (and (=> (>= (midx{v} abv) 0) (= (isnil result) (not (select (kvmarr (old kvm)) (midx{v} abv))))) (=> (isnil result) (= (kvmarr kvm) (store (kvmarr (old kvm)) (midx{v} abv) true))) (=> (not (isnil result)) (= kvm (old kvm))))
//@   ensures[no_allocation_on_success] (=> (isnil result) (= allocs (old allocs)))
//@   ensures[error_kind] (and (=> (< (midx{v} abv) 0) (= result (PErr T_ErrInvalidMetric abv))) (=> (and (>= (midx{v} abv) 0) (not (isnil result))) (= result (PErr T_ErrDefinedN abv))))
'''

SPLITCOUPLE = '''
// ---- splitCouple (C01, C06, C18): cut an element at its first ':' ----

//@ func splitCouple(couple)
//@   loop 1 invariant[bounds] (and (<= 0 i) (<= i (len couple)))
//@   loop 1 invariant[no_colon_before] (forall ((p Int)) (! (=> (and (<= couple.off p) (< p (+ couple.off i))) (not (= (select couple.arr p) #x3a))) :pattern ((select couple.arr p))))
//@   loop 1 decreases (- (len couple) i)
//@   ensures[key] (same-str result.0 (elemkey couple))
//@   ensures[value] (same-str result.1 (elemval couple))
//@   ensures[no_allocation] (= allocs (old allocs))
'''

PARSE3 = '''
// ---- ParseVector (C01, C06, C13, C18) against the reference fold parseRes{v} ----


//@ func ParseVector(vector)
//@   opt split_returns
//@   callee_posts (*kvm).Set seen_array error_kind
//@   callee_posts (*{T}).Set ok_iff_legal wf_preserved vals_array error_value
//@   loop 1 invariant[bounds] (and (<= 0 start) (<= start i) (<= i (+ l 1)) (or (<= i l) (= start (+ l 1))) (= l (- (len vector) 9)) (hasHeader{v} vector))
//@   loop 1 invariant[nosep] (forall ((p Int)) (! (=> (and (<= (+ (+ vector.off 9) start) p) (< p (+ (+ vector.off 9) i))) (not (= (select vector.arr p) #x2f))) :pattern ((select vector.arr p))))
//@   loop 1 invariant[fold] (let ((V (substr vector 9 (len vector)))) (= (fold{v} V 0 noneSeen noVals) (fold{v} V start (kvmarr kvm) (valsarr{v} {r}))))
//@   loop 1 invariant[wf] (wf{v} {r})
//@   loop 1 invariant[one_allocation_so_far] (= allocs (+ (old allocs) 1))
//@   loop 1 decreases (- (+ l 2) i)
//@   lemma[element_end] after splitCouple#1 (let ((V (substr vector 9 (len vector)))) (= (nextsep V start) i))
//@   assume_def[unfold_fold_at_element] after splitCouple#1 (let ((V (substr vector 9 (len vector)))) (fold{v}_def V start (kvmarr kvm) (valsarr{v} {r})))
//@   assume_def[unfold_fold_at_end] exit loop1 (let ((V (substr vector 9 (len vector)))) (fold{v}_def V start (kvmarr kvm) (valsarr{v} {r})))
//@   ensures[spec_error] (= result.1 (p.err (parseRes{v} vector)))
//@   ensures[accept_iff_grammar] (= (isnil result.1) (= (p.err (parseRes{v} vector)) Nil))
//@   ensures[accept_implies_prefix] (=> (isnil result.1) (hasHeader{v} vector))
//@   ensures[accept_object] (=> (isnil result.1) (and (not (isnil result.0)) (wf{v} (deref result.0)) (forall-in (m 0 21) (= (field{v} (deref result.0) m) (select (p.vals (parseRes{v} vector)) m)))))
//@   ensures[reject_nil] (=> (not (isnil result.1)) (isnil result.0))
//@   ensures[allocation_budget] (=> (isnil result.1) (<= allocs (+ (old allocs) 1)))
'''

APPENDERS = '''
// ---- buffer helpers of Vector: they write only through b (C14 frame) ----

//@ func mandatory(b, pre, v)
//@   modifies b

//@ func notMandatory(b, pre, v)
//@   inline mandatory
//@   modifies b
'''

def vector_contract(v):
    T='CVSS'+v; r='cvss'+v
    n={'30':(8,14),'31':(8,14),'40':(11,21)}[v]
    chain=''
    if v=='40':
        # one link per optional metric, in the order of the if statements (= specification order)
        for k in range(1,21):
            chain+='//@   lemma_chain[partial_sum_%d] at l#%d havoc l : (= l (segpos40_%d cvss40))\n' % (k,k,11+k)
    out=['''
// ---- Vector / lenVec (C02, C08, C17): the serialiser writes the canonical form in one allocation ----

//@ func lenVec(%s)
//@   requires[wf] (wf%s %s)
//@   inline get Get
@@CHAIN@@//@   ensures[exact] (= result (canonLen%s %s))
//@   ensures[no_allocation] (= allocs (old allocs))

//@ func (%s).Vector(%s)
//@   requires[wf] (wf%s %s)
//@   opt prune_infeasible
//@   inline mandatory notMandatory get Get
''' % (r,v,r,v,r,T,r,v,r)]
    out[0]=out[0].replace('@@CHAIN@@',chain)
    k=0
    for i in range(1,n[0]+1):
        out.append('//@   lemma_chain[prefix_%d] after mandatory#%d havoc b : (canonPrefix%s_%d (bufstr b) %s)\n' % (k,i,v,k,r)); k+=1
    for i in range(1,n[1]+1):
        out.append('//@   lemma_chain[prefix_%d] after notMandatory#%d havoc b : (canonPrefix%s_%d (bufstr b) %s)\n' % (k,i,v,k,r)); k+=1
    out.append('''//@   ensures[canonical] (isCanon%s result %s)
//@   ensures[one_allocation] (= allocs (+ (old allocs) 1))
''' % (v,r))
    return ''.join(out)

RATING = '''
// ---- Rating (C15) ----

//@ func Rating(score)
//@   requires[not_nan] (not (fp.isNaN score))
//@   ensures[none]     (=> (= (ratingClass score) 0) (and (isnil result.1) (str= result.0 "NONE")))
//@   ensures[low]      (=> (= (ratingClass score) 1) (and (isnil result.1) (str= result.0 "LOW")))
//@   ensures[medium]   (=> (= (ratingClass score) 2) (and (isnil result.1) (str= result.0 "MEDIUM")))
//@   ensures[high]     (=> (= (ratingClass score) 3) (and (isnil result.1) (str= result.0 "HIGH")))
//@   ensures[critical] (=> (= (ratingClass score) 4) (and (isnil result.1) (str= result.0 "CRITICAL")))
//@   ensures[out_of_bounds] (=> (= (ratingClass score) (- 1)) (and (= result.1 ErrOutOfBoundsScore) (= (len result.0) 0)))
//@   ensures[no_allocation] (= allocs (old allocs))
'''

NOMEN = '''
// ---- Nomenclature (C16) ----

//@ func (CVSS40).Nomenclature(cvss40)
//@   ensures[b]   (= (str= result "CVSS-B")   (and (not (threatDefined40 cvss40)) (not (envDefined40 cvss40))))
//@   ensures[bt]  (= (str= result "CVSS-BT")  (and (threatDefined40 cvss40) (not (envDefined40 cvss40))))
//@   ensures[be]  (= (str= result "CVSS-BE")  (and (not (threatDefined40 cvss40)) (envDefined40 cvss40)))
//@   ensures[bte] (= (str= result "CVSS-BTE") (and (threatDefined40 cvss40) (envDefined40 cvss40)))
//@   ensures[no_allocation] (= allocs (old allocs))
'''


def gen(v):
    T = 'CVSS' + v
    r = 'cvss' + v
    N1 = NMETRICS[v] - 1
    parts = [HEAD]
    if v in ('30', '31'):
        parts.append(V3_LAYOUT)
    elif v == '20':
        parts.append(V2_LAYOUT)
    else:
        parts.append(V4_LAYOUT)
    parts.append(SETGET)
    parts.append(GET_V2 if v == '20' else GET_V3)
    if v != '20':
        parts.append(MOD)
    if v in ('30', '31'):
        parts.append(KVM)
        parts.append(SPLITCOUPLE)
        parts.append(PARSE3)
    if v != '20':
        parts.append(APPENDERS)
        parts.append(vector_contract(v))
        parts.append(RATING)
    if v == '40':
        parts.append(NOMEN)
    extra = os.path.join(os.path.dirname(os.path.abspath(__file__)), 'extra_%s.txt' % v)
    if os.path.exists(extra):
        parts.append(open(extra).read())
    if v in ('30', '31'):
        extra = os.path.join(os.path.dirname(os.path.abspath(__file__)), 'extra_3x.txt')
        if os.path.exists(extra):
            parts.append(open(extra).read())
    text = ''.join(parts)
    return text.replace('{T}', T).replace('{r}', r).replace('{v}', v).replace('{N1}', str(N1))


if __name__ == '__main__':
    out = sys.argv[1]
    for v in ('20', '30', '31', '40'):
        d = os.path.join(out, v)
        os.makedirs(d, exist_ok=True)
        open(os.path.join(d, 'zz_contracts_verif.go'), 'w').write(gen(v))
