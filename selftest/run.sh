#!/bin/bash
# Self-test of the machinery (not a registered check): every seeded change under /verif/seeded must be
# reported by at least one of the checks recorded in its meta.json (must-fail corpus), and every
# harmless edit under /verif/selftest/harmless must pass the checks listed in harmless/CHECKS
# (must-pass corpus).  Works on scratch copies of /repo (outside /repo and /verif), removed afterwards.
# usage: selftest/run.sh [seeded|harmless|own|all] [id-filter-regex]
set -u
WHAT=${1:-all}; FILT=${2:-.}
fail=0
if [ "$WHAT" = seeded ] || [ "$WHAT" = all ]; then
  for d in /verif/seeded/*/; do
    n=$(basename $d)
    [[ $n =~ $FILT ]] || continue
    [ -f $d/patch.diff ] || continue
    checks=$(python3 -c "
import json,sys
m=json.load(open('$d/meta.json'))
print(' '.join(c['check'] for c in m.get('checks_run',[]) if c['exit']==1))")
    [ -n "$checks" ] || { echo "SELFTEST $n: no detecting check recorded"; fail=1; continue; }
    c=${checks%% *}
    out=$(/verif/tools/trymut.sh $d/patch.diff $c 2>&1)
    if echo "$out" | grep -q "^VIOLATION property=$c " && echo "$out" | grep -q "exit=1"; then
      echo "SELFTEST $n: detected by $c"
    else
      echo "SELFTEST $n: NOT detected by $c"; echo "$out" | tail -3; fail=1
    fi
  done
fi
if [ "$WHAT" = harmless ] || [ "$WHAT" = all ]; then
  while read -r p checks; do
    [ -n "$p" ] || continue
    [[ $p =~ $FILT ]] || continue
    out=$(/verif/tools/trymut.sh /verif/selftest/harmless/$p $checks 2>&1)
    if echo "$out" | grep -q "VIOLATION\|exit=[1-9]\|PATCH FAILED"; then
      echo "SELFTEST harmless/$p: ALARM"; echo "$out" | grep -v "exit=0" | tail -5; fail=1
    else
      echo "SELFTEST harmless/$p: quiet on $checks"
    fi
  done < /verif/selftest/harmless/CHECKS
fi
if [ "$WHAT" = own ] || [ "$WHAT" = all ]; then
  # changes written while closing gaps (not from the sub-agents): each must be reported by the check named
  while read -r p c; do
    [ -n "$p" ] || continue
    [[ $p =~ $FILT ]] || continue
    out=$(/verif/tools/trymut.sh /verif/selftest/own/$p $c 2>&1)
    if echo "$out" | grep -q "^VIOLATION property=$c " && echo "$out" | grep -q "exit=1"; then
      echo "SELFTEST own/$p: detected by $c"
    else
      echo "SELFTEST own/$p: NOT detected by $c"; fail=1
    fi
  done < /verif/selftest/own/CHECKS
fi
exit $fail
