#!/bin/sh
# Vacuity guard for C04/lemma/integer_valued_floats_exact/add: the same script with the 13-bit sum
# replaced by the wrapping 12-bit sum must be refuted (sat, a = 2045, b = 5 style overflow).
# Run after `bin/govc check C04` (uses the script that run wrote).
f=/verif/out/smt/C04/lemmas/C04_lemma_integer_valued_floats_exact_add.smt2
[ -f "$f" ] || { echo "run bin/govc check C04 first"; exit 2; }
t=$(mktemp /tmp/i2f_wrong.XXXXXX.smt2)
sed 's/(bvadd ((_ sign_extend 1) a) ((_ sign_extend 1) b))/(bvadd a b)/' "$f" > "$t"
r=$(timeout 120 z3-new "$t" | head -1); rm -f "$t"
[ "$r" = sat ] && { echo "ok: wrapping variant refuted"; exit 0; }
echo "FAIL: wrapping variant answered '$r'"; exit 1
